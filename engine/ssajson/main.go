// ssajson: load /repo (with the verification harness files injected through a
// go/packages Overlay), build go/ssa and dump the functions as JSON for the symbolic
// executor (engine/gosym). Nothing is cached: every run re-reads /repo's working tree.
package main

import (
	"bytes"
	"crypto/sha256"
	"encoding/hex"
	"encoding/json"
	"flag"
	"fmt"
	"go/constant"
	"go/token"
	"go/types"
	"os"
	"path/filepath"
	"sort"
	"strconv"
	"strings"

	"golang.org/x/tools/go/packages"
	"golang.org/x/tools/go/ssa"
	"golang.org/x/tools/go/ssa/ssautil"
)

type TypeDesc struct {
	K      string      `json:"k"`
	Name   string      `json:"name,omitempty"`
	Elem   string      `json:"elem,omitempty"`
	Key    string      `json:"key,omitempty"`
	Under  string      `json:"under,omitempty"`
	Len    int64       `json:"len,omitempty"`
	Fields []FieldDesc `json:"fields,omitempty"`
	Elems  []string    `json:"elems,omitempty"`
	Params []string    `json:"params,omitempty"`
	Rets   []string    `json:"rets,omitempty"`
}
type FieldDesc struct {
	Name string `json:"name"`
	Type string `json:"type"`
}

type Instr map[string]interface{}

type Block struct {
	Index  int     `json:"index"`
	Preds  []int   `json:"preds"`
	Succs  []int   `json:"succs"`
	Instrs []Instr `json:"instrs"`
}

type Func struct {
	Name     string   `json:"name"`
	Pkg      string   `json:"pkg"`
	Params   []string `json:"params"`
	PTypes   []string `json:"ptypes"`
	FreeVars []string `json:"freevars"`
	Rets     []string `json:"rets"`
	Blocks   []Block  `json:"blocks"`
	Hash     string   `json:"hash"`
	Pos      string   `json:"pos"`
	Recover  int      `json:"recover"`
}

type Global struct {
	Name string `json:"name"`
	Type string `json:"type"` // pointee type
}

type Out struct {
	Types   map[string]*TypeDesc `json:"types"`
	Funcs   map[string]*Func     `json:"funcs"`
	Globals map[string]*Global   `json:"globals"`
	Methods map[string]string    `json:"methods"` // "<type>|<method>" -> function name
	Files   []string             `json:"files"`
}

var out = Out{Types: map[string]*TypeDesc{}, Funcs: map[string]*Func{}, Globals: map[string]*Global{}, Methods: map[string]string{}}
var fset *token.FileSet

func tid(t types.Type) string {
	if t == nil {
		return ""
	}
	key := types.TypeString(t, nil)
	if _, ok := out.Types[key]; ok {
		return key
	}
	d := &TypeDesc{}
	out.Types[key] = d
	switch tt := t.(type) {
	case *types.Basic:
		d.K = "basic"
		d.Name = tt.Name()
	case *types.Named:
		d.K = "named"
		d.Name = key
		d.Under = tid(tt.Underlying())
	case *types.Alias:
		d.K = "named"
		d.Name = key
		d.Under = tid(types.Unalias(tt))
	case *types.Pointer:
		d.K = "ptr"
		d.Elem = tid(tt.Elem())
	case *types.Slice:
		d.K = "slice"
		d.Elem = tid(tt.Elem())
	case *types.Array:
		d.K = "array"
		d.Elem = tid(tt.Elem())
		d.Len = tt.Len()
	case *types.Struct:
		d.K = "struct"
		for i := 0; i < tt.NumFields(); i++ {
			d.Fields = append(d.Fields, FieldDesc{tt.Field(i).Name(), tid(tt.Field(i).Type())})
		}
	case *types.Tuple:
		d.K = "tuple"
		for i := 0; i < tt.Len(); i++ {
			d.Elems = append(d.Elems, tid(tt.At(i).Type()))
		}
	case *types.Signature:
		d.K = "func"
		for i := 0; i < tt.Params().Len(); i++ {
			d.Params = append(d.Params, tid(tt.Params().At(i).Type()))
		}
		for i := 0; i < tt.Results().Len(); i++ {
			d.Rets = append(d.Rets, tid(tt.Results().At(i).Type()))
		}
	case *types.Interface:
		d.K = "iface"
	case *types.Chan:
		d.K = "chan"
		d.Elem = tid(tt.Elem())
	case *types.Map:
		d.K = "map"
		d.Key = tid(tt.Key())
		d.Elem = tid(tt.Elem())
	default:
		d.K = "other"
		d.Name = key
	}
	return key
}

func pos(p token.Pos) string {
	if !p.IsValid() {
		return ""
	}
	pp := fset.Position(p)
	return filepath.Base(pp.Filename) + ":" + strconv.Itoa(pp.Line)
}

func val(v ssa.Value) interface{} {
	switch x := v.(type) {
	case nil:
		return nil
	case *ssa.Const:
		c := map[string]interface{}{"k": "const", "type": tid(x.Type())}
		if x.Value == nil {
			c["nil"] = true
			return c
		}
		switch x.Value.Kind() {
		case constant.Bool:
			c["bool"] = constant.BoolVal(x.Value)
		case constant.String:
			c["str"] = constant.StringVal(x.Value)
		case constant.Int:
			c["int"] = x.Value.ExactString()
		case constant.Float:
			f, _ := constant.Float64Val(x.Value)
			// an untyped/typed float constant converted to an integer type stays Kind Float only
			// for float types; record both forms
			c["float"] = strconv.FormatFloat(f, 'x', -1, 64)
			c["exact"] = x.Value.ExactString()
		case constant.Complex:
			re, _ := constant.Float64Val(constant.Real(x.Value))
			im, _ := constant.Float64Val(constant.Imag(x.Value))
			c["re"] = strconv.FormatFloat(re, 'x', -1, 64)
			c["im"] = strconv.FormatFloat(im, 'x', -1, 64)
		}
		return c
	case *ssa.Global:
		return "@" + x.String()
	case *ssa.Function:
		return "&" + x.String()
	case *ssa.Builtin:
		return "!" + x.Name()
	case *ssa.Parameter:
		return "$" + x.Name()
	case *ssa.FreeVar:
		return "^" + x.Name()
	default:
		return "%" + v.Name()
	}
}

func vals(vs []ssa.Value) []interface{} {
	r := make([]interface{}, len(vs))
	for i, v := range vs {
		r[i] = val(v)
	}
	return r
}

func common(c *ssa.CallCommon, in Instr) {
	if c.IsInvoke() {
		in["invoke"] = true
		in["method"] = c.Method.Name()
		in["recv"] = val(c.Value)
		in["recvtype"] = tid(c.Value.Type())
	} else {
		in["fn"] = val(c.Value)
	}
	in["args"] = vals(c.Args)
	in["sig"] = tid(c.Signature())
}

func dumpFunc(fn *ssa.Function) {
	name := fn.String()
	if _, ok := out.Funcs[name]; ok {
		return
	}
	f := &Func{Name: name, Pos: pos(fn.Pos()), Recover: -1}
	out.Funcs[name] = f
	if fn.Pkg != nil {
		f.Pkg = fn.Pkg.Pkg.Path()
	}
	if fn.Blocks == nil {
		f.Blocks = nil
		return
	}
	if fn.Recover != nil {
		f.Recover = fn.Recover.Index
	}
	for _, p := range fn.Params {
		f.Params = append(f.Params, p.Name())
		f.PTypes = append(f.PTypes, tid(p.Type()))
	}
	for _, p := range fn.FreeVars {
		f.FreeVars = append(f.FreeVars, p.Name())
	}
	res := fn.Signature.Results()
	for i := 0; i < res.Len(); i++ {
		f.Rets = append(f.Rets, tid(res.At(i).Type()))
	}
	var buf bytes.Buffer
	fn.WriteTo(&buf)
	h := sha256.Sum256(buf.Bytes())
	f.Hash = hex.EncodeToString(h[:8])
	for _, b := range fn.Blocks {
		blk := Block{Index: b.Index, Preds: []int{}, Succs: []int{}}
		for _, p := range b.Preds {
			blk.Preds = append(blk.Preds, p.Index)
		}
		for _, s := range b.Succs {
			blk.Succs = append(blk.Succs, s.Index)
		}
		for _, ins := range b.Instrs {
			in := Instr{}
			if v, ok := ins.(ssa.Value); ok {
				in["name"] = v.Name()
				in["type"] = tid(v.Type())
			}
			if p := ins.Pos(); p.IsValid() {
				in["pos"] = pos(p)
			}
			switch x := ins.(type) {
			case *ssa.Alloc:
				in["op"] = "Alloc"
				in["heap"] = x.Heap
				in["comment"] = x.Comment
			case *ssa.BinOp:
				in["op"] = "BinOp"
				in["bop"] = x.Op.String()
				in["x"] = val(x.X)
				in["y"] = val(x.Y)
				in["xtype"] = tid(x.X.Type())
				in["ytype"] = tid(x.Y.Type())
			case *ssa.UnOp:
				in["op"] = "UnOp"
				in["uop"] = x.Op.String()
				in["x"] = val(x.X)
				in["xtype"] = tid(x.X.Type())
				in["commaok"] = x.CommaOk
			case *ssa.Call:
				in["op"] = "Call"
				common(&x.Call, in)
			case *ssa.Go:
				in["op"] = "Go"
				common(&x.Call, in)
			case *ssa.Defer:
				in["op"] = "Defer"
				common(&x.Call, in)
			case *ssa.ChangeInterface:
				in["op"] = "ChangeInterface"
				in["x"] = val(x.X)
			case *ssa.ChangeType:
				in["op"] = "ChangeType"
				in["x"] = val(x.X)
			case *ssa.Convert:
				in["op"] = "Convert"
				in["x"] = val(x.X)
				in["xtype"] = tid(x.X.Type())
			case *ssa.MultiConvert:
				in["op"] = "Convert"
				in["x"] = val(x.X)
				in["xtype"] = tid(x.X.Type())
			case *ssa.DebugRef:
				continue
			case *ssa.Extract:
				in["op"] = "Extract"
				in["x"] = val(x.Tuple)
				in["index"] = x.Index
			case *ssa.Field:
				in["op"] = "Field"
				in["x"] = val(x.X)
				in["field"] = x.Field
			case *ssa.FieldAddr:
				in["op"] = "FieldAddr"
				in["x"] = val(x.X)
				in["field"] = x.Field
			case *ssa.If:
				in["op"] = "If"
				in["cond"] = val(x.Cond)
			case *ssa.Index:
				in["op"] = "Index"
				in["x"] = val(x.X)
				in["index"] = val(x.Index)
				in["itype"] = tid(x.Index.Type())
				in["xtype"] = tid(x.X.Type())
			case *ssa.IndexAddr:
				in["op"] = "IndexAddr"
				in["x"] = val(x.X)
				in["index"] = val(x.Index)
				in["itype"] = tid(x.Index.Type())
				in["xtype"] = tid(x.X.Type())
			case *ssa.Jump:
				in["op"] = "Jump"
			case *ssa.Lookup:
				in["op"] = "Lookup"
				in["x"] = val(x.X)
				in["index"] = val(x.Index)
				in["commaok"] = x.CommaOk
			case *ssa.MakeChan:
				in["op"] = "MakeChan"
				in["size"] = val(x.Size)
			case *ssa.MakeClosure:
				in["op"] = "MakeClosure"
				in["fn"] = val(x.Fn)
				in["bindings"] = vals(x.Bindings)
			case *ssa.MakeInterface:
				in["op"] = "MakeInterface"
				in["x"] = val(x.X)
				in["xtype"] = tid(x.X.Type())
			case *ssa.MakeMap:
				in["op"] = "MakeMap"
			case *ssa.MakeSlice:
				in["op"] = "MakeSlice"
				in["len"] = val(x.Len)
				in["cap"] = val(x.Cap)
			case *ssa.MapUpdate:
				in["op"] = "MapUpdate"
				in["map"] = val(x.Map)
				in["key"] = val(x.Key)
				in["value"] = val(x.Value)
			case *ssa.Next:
				in["op"] = "Next"
				in["iter"] = val(x.Iter)
				in["isstring"] = x.IsString
			case *ssa.Panic:
				in["op"] = "Panic"
				in["x"] = val(x.X)
			case *ssa.Phi:
				in["op"] = "Phi"
				in["edges"] = vals(x.Edges)
				in["comment"] = x.Comment
			case *ssa.Range:
				in["op"] = "Range"
				in["x"] = val(x.X)
			case *ssa.Return:
				in["op"] = "Return"
				in["results"] = vals(x.Results)
			case *ssa.RunDefers:
				in["op"] = "RunDefers"
			case *ssa.Select:
				in["op"] = "Select"
			case *ssa.Send:
				in["op"] = "Send"
				in["chan"] = val(x.Chan)
				in["x"] = val(x.X)
			case *ssa.Slice:
				in["op"] = "Slice"
				in["x"] = val(x.X)
				in["xtype"] = tid(x.X.Type())
				in["low"] = val(x.Low)
				in["high"] = val(x.High)
				in["max"] = val(x.Max)
			case *ssa.SliceToArrayPointer:
				in["op"] = "SliceToArrayPointer"
				in["x"] = val(x.X)
			case *ssa.Store:
				in["op"] = "Store"
				in["addr"] = val(x.Addr)
				in["val"] = val(x.Val)
				in["vtype"] = tid(x.Val.Type())
			case *ssa.TypeAssert:
				in["op"] = "TypeAssert"
				in["x"] = val(x.X)
				in["asserted"] = tid(x.AssertedType)
				in["commaok"] = x.CommaOk
			default:
				in["op"] = fmt.Sprintf("UNKNOWN:%T", ins)
			}
			blk.Instrs = append(blk.Instrs, in)
		}
		f.Blocks = append(f.Blocks, blk)
	}
	for _, a := range fn.AnonFuncs {
		dumpFunc(a)
	}
}

func main() {
	repo := flag.String("repo", "/repo", "repository root")
	harness := flag.String("harness", "", "harness root (sub-directories root, detect, fft, rddetector, rdgen)")
	outp := flag.String("out", "", "output JSON file")
	std := flag.String("std", "", "comma separated extra functions outside the repo, e.g. io.ReadAtLeast,math/bits.OnesCount8")
	flag.Parse()

	overlay := map[string][]byte{}
	dirmap := map[string]string{"root": "", "detect": "detect", "fft": "fft", "rddetector": "tools/rddetector", "rdgen": "tools/rdgen"}
	if *harness != "" {
		for sub, rel := range dirmap {
			files, _ := filepath.Glob(filepath.Join(*harness, sub, "*.go"))
			for _, f := range files {
				if strings.HasSuffix(f, "_test.go") {
					continue
				}
				data, err := os.ReadFile(f)
				if err != nil {
					panic(err)
				}
				target := filepath.Join(*repo, rel, filepath.Base(f))
				overlay[target] = data
				out.Files = append(out.Files, target)
			}
		}
	}
	sort.Strings(out.Files)
	fset = token.NewFileSet()
	cfg := &packages.Config{
		Mode: packages.NeedName | packages.NeedFiles | packages.NeedCompiledGoFiles | packages.NeedImports |
			packages.NeedDeps | packages.NeedTypes | packages.NeedSyntax | packages.NeedTypesInfo | packages.NeedTypesSizes | packages.NeedModule,
		Dir:     *repo,
		Fset:    fset,
		Overlay: overlay,
		Env:     append(os.Environ(), "GOFLAGS=-mod=mod", "GOPROXY=off", "GOSUMDB=off"),
	}
	pkgs, err := packages.Load(cfg, "./...")
	if err != nil {
		fmt.Fprintln(os.Stderr, "load:", err)
		os.Exit(2)
	}
	bad := false
	for _, p := range pkgs {
		for _, e := range p.Errors {
			fmt.Fprintln(os.Stderr, "package error:", p.PkgPath, e)
			bad = true
		}
	}
	if bad {
		os.Exit(2)
	}
	prog, spkgs := ssautil.AllPackages(pkgs, ssa.BuilderMode(0))
	prog.Build()

	repoPkgs := map[string]bool{}
	for _, sp := range spkgs {
		if sp == nil {
			continue
		}
		repoPkgs[sp.Pkg.Path()] = true
		for _, m := range sp.Members {
			switch mm := m.(type) {
			case *ssa.Function:
				dumpFunc(mm)
			case *ssa.Global:
				out.Globals[mm.String()] = &Global{Name: mm.String(), Type: tid(mm.Type().(*types.Pointer).Elem())}
			case *ssa.Type:
				t := mm.Type()
				for _, tt := range []types.Type{t, types.NewPointer(t)} {
					ms := prog.MethodSets.MethodSet(tt)
					for i := 0; i < ms.Len(); i++ {
						fn := prog.MethodValue(ms.At(i))
						if fn != nil {
							dumpFunc(fn)
							out.Methods[tid(tt)+"|"+ms.At(i).Obj().Name()] = fn.String()
						}
					}
				}
			}
		}
	}
	// extra functions from outside the repo
	if *std != "" {
		for _, q := range strings.Split(*std, ",") {
			i := strings.LastIndex(q, ".")
			pkgPath, fname := q[:i], q[i+1:]
			for _, sp := range prog.AllPackages() {
				if sp.Pkg.Path() == pkgPath {
					if fn := sp.Func(fname); fn != nil {
						dumpFunc(fn)
					}
					for _, m := range sp.Members {
						if g, ok := m.(*ssa.Global); ok {
							out.Globals[g.String()] = &Global{Name: g.String(), Type: tid(g.Type().(*types.Pointer).Elem())}
						}
					}
				}
			}
		}
	}
	data, err := json.Marshal(out)
	if err != nil {
		panic(err)
	}
	if *outp == "" {
		os.Stdout.Write(data)
	} else if err := os.WriteFile(*outp, data, 0644); err != nil {
		panic(err)
	}
}
