"""Memory model: objects are immutable value trees (python lists for arrays/structs), states are
shallow-copied dicts objid -> tree; stores are functional updates."""
import z3
from vals import *
from ops import *


class Ptr(object):
    __slots__ = ('obj', 'path')

    def __init__(self, obj, path=()):
        self.obj = obj
        self.path = path

    def __repr__(self):
        return 'Ptr(%s,%s)' % (self.obj, self.path)


class Slice(object):
    __slots__ = ('obj', 'path', 'off', 'len', 'cap')

    def __init__(self, obj, path, off, ln, cap):
        self.obj = obj
        self.path = path
        self.off = off
        self.len = ln
        self.cap = cap

    def __repr__(self):
        return 'Slice(%s,%s,%s,%s,%s)' % (self.obj, self.path, self.off, self.len, self.cap)


NILSLICE = Slice(None, (), 0, 0, 0)


class Iface(object):
    """non-nil interface value; nil interface is None.  isnil may be a z3 Bool for 'maybe nil' values."""
    __slots__ = ('typ', 'val', 'isnil')

    def __init__(self, typ, val, isnil=False):
        self.typ = typ
        self.val = val
        self.isnil = isnil


class Closure(object):
    __slots__ = ('fn', 'bindings')

    def __init__(self, fn, bindings):
        self.fn = fn
        self.bindings = bindings


class FuncRef(object):
    __slots__ = ('name',)

    def __init__(self, name):
        self.name = name

    def __repr__(self):
        return 'FuncRef(%s)' % self.name


class Opaque(object):
    """opaque object (error values, files, channels, wait groups ...)"""
    __slots__ = ('kind', 'data')

    def __init__(self, kind, data=None):
        self.kind = kind
        self.data = data

    def __repr__(self):
        return 'Opaque(%s,%r)' % (self.kind, self.data)


class StreamBlock(object):
    """content of a byte buffer: bytes [start, start+n) of the harness stream; only the first `fresh` bytes were
    delivered by the last read (True = all), the rest is stale"""
    __slots__ = ('start', 'n', 'fresh')

    def __init__(self, start, n, fresh=True):
        self.start = start
        self.n = n
        self.fresh = fresh


class SymChoice(object):
    """reference value that is one of several alternatives: [(guard, value)]; guards exclusive & exhaustive"""
    __slots__ = ('alts',)

    def __init__(self, alts):
        self.alts = alts


class State(object):
    __slots__ = ('heap', 'pc', 'dead')

    def __init__(self, heap=None, pc=()):
        self.heap = heap if heap is not None else {}
        self.pc = pc
        self.dead = False

    def copy(self):
        s = State(dict(self.heap), self.pc)
        return s


def tree_get(tree, path):
    for p in path:
        tree = tree[p]
    return tree


def tree_set(tree, path, v):
    if not path:
        return v
    p = path[0]
    new = list(tree)
    new[p] = tree_set(tree[p], path[1:], v)
    return new


def kind_of(prog, tid):
    t = prog.under(tid)
    k = t['k']
    if k == 'basic':
        n = t['name']
        if n in INT_TYPES:
            return 'int'
        if n in ('float64', 'float32', 'untyped float'):
            return 'float'
        if n in ('bool', 'untyped bool'):
            return 'bool'
        if n in ('string', 'untyped string'):
            return 'string'
        if n in ('complex128', 'untyped complex'):
            return 'complex'
        if n == 'untyped nil':
            return 'nil'
        if n == 'unsafe.Pointer':
            return 'ptr'
        return 'other'
    return k


def int_info(prog, tid):
    t = prog.under(tid)
    return INT_TYPES[t['name']]


def zero_value(prog, tid):
    t = prog.under(tid)
    k = t['k']
    if k == 'basic':
        n = t['name']
        if n in INT_TYPES:
            return 0
        if n in ('float64', 'float32'):
            return 0.0
        if n == 'bool':
            return False
        if n == 'string':
            return ''
        if n == 'complex128':
            return Cx(0.0, 0.0)
        return None
    if k == 'struct':
        return [zero_value(prog, f['type']) for f in t.get('fields', [])]
    if k == 'array':
        z = zero_value(prog, t['elem'])
        if isinstance(z, list):
            return [zero_value(prog, t['elem']) for _ in range(t['len'])]
        return [z] * t['len']
    if k == 'slice':
        return NILSLICE
    return None


def merge_tree(prog, g, a, b):
    """ite(g, a, b) on value trees"""
    if a is b:
        return a
    if isinstance(a, StreamBlock) or isinstance(b, StreamBlock):
        if isinstance(a, StreamBlock) and isinstance(b, StreamBlock):
            fa = a.n if a.fresh is True else a.fresh
            fb = b.n if b.fresh is True else b.fresh
            return StreamBlock(int_ite(g, a.start, b.start, 64), int_ite(g, a.n, b.n, 64), int_ite(g, fa, fb, 64))
        # a buffer that was filled on one path only: unread on the other (no fresh bytes)
        blk = a if isinstance(a, StreamBlock) else b
        fr = blk.n if blk.fresh is True else blk.fresh
        return StreamBlock(blk.start, blk.n, int_ite(g if blk is a else b_not(g), fr, 0, 64))
    if isinstance(a, list):
        if not isinstance(b, list) or len(a) != len(b):
            raise Unsupported('merge of differently shaped objects')
        return [merge_tree(prog, g, x, y) for x, y in zip(a, b)]
    return merge_scalar(g, a, b)


def is_boolv(x):
    return isinstance(x, bool) or (isinstance(x, z3.ExprRef) and z3.is_bool(x))


def merge_scalar(g, a, b):
    if a is b:
        return a
    if is_boolv(a) or is_boolv(b):
        return b_ite(g, a, b)
    fa = isinstance(a, (float, FInt, FReal))
    fb = isinstance(b, (float, FInt, FReal))
    if fa or fb:
        return f_ite(g, a, b)
    ia = isinstance(a, (int, GSum)) or (isinstance(a, z3.ExprRef) and z3.is_bv(a)) or isinstance(a, LazySel)
    ib = isinstance(b, (int, GSum)) or (isinstance(b, z3.ExprRef) and z3.is_bv(b)) or isinstance(b, LazySel)
    if ia and ib:
        w = 64
        for x in (a, b):
            if isinstance(x, GSum):
                w = x.w
            elif isinstance(x, z3.ExprRef):
                w = x.size()
            elif isinstance(x, LazySel):
                w = x.w
        return int_ite(g, a, b, w, True)
    if isinstance(a, str) and isinstance(b, str) and a == b:
        return a
    if isinstance(a, Cx) and isinstance(b, Cx):
        return Cx(f_ite(g, a.re, b.re), f_ite(g, a.im, b.im))
    if isinstance(a, Slice) and isinstance(b, Slice):
        if a.obj == b.obj and a.path == b.path and a.off == b.off and a.cap == b.cap and _same(a.len, b.len):
            return a
        return SymChoice([(g, a), (b_not(g), b)])
    if isinstance(a, Ptr) and isinstance(b, Ptr):
        if a.obj == b.obj and a.path == b.path:
            return a
        return SymChoice([(g, a), (b_not(g), b)])
    if isinstance(a, tuple) and isinstance(b, tuple) and len(a) == len(b):
        return tuple(merge_scalar(g, x, y) for x, y in zip(a, b))
    if isinstance(a, (Iface, Opaque)) or isinstance(b, (Iface, Opaque)) or a is None or b is None:
        return merge_ref(g, a, b)
    if isinstance(a, (FuncRef, Closure)) and isinstance(b, (FuncRef, Closure)):
        if isinstance(a, FuncRef) and isinstance(b, FuncRef) and a.name == b.name:
            return a
        return SymChoice([(g, a), (b_not(g), b)])
    if isinstance(a, SymChoice) or isinstance(b, SymChoice):
        alts = []
        for gg, x in (a.alts if isinstance(a, SymChoice) else [(True, a)]):
            alts.append((b_and(g, gg), x))
        for gg, x in (b.alts if isinstance(b, SymChoice) else [(True, b)]):
            alts.append((b_and(b_not(g), gg), x))
        return SymChoice(alts)
    raise Unsupported('merge of %r and %r' % (type(a), type(b)))


def _same(x, y):
    if x is y:
        return True
    if isinstance(x, int) and isinstance(y, int):
        return x == y
    return False


def _err_id(o):
    return o.data[1] if (isinstance(o, Opaque) and o.kind == 'error' and o.data and o.data[0] == 'id') else None


def merge_ref(g, a, b):
    """interfaces / opaque references: equal or (nil vs non-nil)"""
    if a is b:
        return a
    if isinstance(a, Opaque) and isinstance(b, Opaque) and _err_id(a) is not None and _err_id(b) is not None:
        return Opaque('error', ('id', int_ite(g, _err_id(a), _err_id(b), 64)))
    if isinstance(a, Iface) and isinstance(b, Iface) and _err_id(a.val) is not None and _err_id(b.val) is not None:
        return Iface(a.typ, Opaque('error', ('id', int_ite(g, _err_id(a.val), _err_id(b.val), 64))), b_ite(g, a.isnil, b.isnil))
    if isinstance(a, Opaque) and isinstance(b, Opaque) and a.kind == b.kind and a.data == b.data:
        return a
    # error-like interface values: keep a 'maybe nil' interface
    if a is None and isinstance(b, Iface):
        return Iface(b.typ, b.val, b_or(g, b.isnil) if not isinstance(b.isnil, bool) or b.isnil else g)
    if b is None and isinstance(a, Iface):
        ng = b_not(g)
        return Iface(a.typ, a.val, b_or(ng, a.isnil) if not isinstance(a.isnil, bool) or a.isnil else ng)
    if isinstance(a, Iface) and isinstance(b, Iface):
        if a.typ == b.typ:
            try:
                v = merge_scalar(g, a.val, b.val)
            except Unsupported:
                v = SymChoice([(g, a.val), (b_not(g), b.val)])
            return Iface(a.typ, v, b_ite(g, a.isnil, b.isnil))
        return SymChoice([(g, a), (b_not(g), b)])
    return SymChoice([(g, a), (b_not(g), b)])
