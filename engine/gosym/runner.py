"""Job runner: executes harness instances symbolically in worker processes, discharges their
obligations, and turns satisfiable ones into replay records."""
import os
import sys
import time
import json
import traceback
import multiprocessing as mp

sys.setrecursionlimit(200000)

_PROG = None
_PROGPATH = None


def _init(path):
    global _PROG, _PROGPATH
    import threading
    threading.stack_size(512 * 1024 * 1024)
    _PROGPATH = path


def _prog():
    global _PROG
    if _PROG is None:
        from prog import Program
        _PROG = Program(_PROGPATH)
    return _PROG


PKGS = {
    'root': 'github.com/Trisia/randomness',
    'detect': 'github.com/Trisia/randomness/detect',
    'fft': 'github.com/Trisia/randomness/fft',
    'rddetector': 'github.com/Trisia/randomness/tools/rddetector',
    'rdgen': 'github.com/Trisia/randomness/tools/rdgen',
}


def run_job(job):
    """job: dict(pkg, harness, params, opts). returns dict"""
    import threading
    out = {}

    def target():
        try:
            out['r'] = _run_job(job)
        except BaseException as e:
            out['r'] = {'job': job, 'error': '%s: %s' % (type(e).__name__, e), 'trace': traceback.format_exc()[-3000:],
                        'results': [], 'wall': 0.0}
    t = threading.Thread(target=target)
    t.start()
    t.join()
    return out['r']


def _run_job(job):
    import z3
    from intr import make_executor
    from mem import State
    from discharge import Discharger, model_record
    import stubs
    t0 = time.time()
    prog = _prog()
    opts = job.get('opts', {})
    extra = stubs.select(opts.get('stubs', []))
    ex = make_executor(prog, extra, unwind=opts.get('unwind', 64))
    ex.unwind_limits.update(opts.get('unwind_limits', {}))
    ex.job = job
    ex.fp_inputs = bool(opts.get('fp_inputs'))
    ex.linear_normalize = bool(opts.get('linear_normalize'))
    ex.pin_consts = bool(opts.get('pin_consts'))
    ex.feas_timeout_ms = int(opts.get('feas_timeout_ms', 20000))
    ex.fp_mode = bool(opts.get('fp_mode'))
    st = State()
    pkg = PKGS[job['pkg']]
    inits = [PKGS['root']] if job['pkg'] in ('root',) else [PKGS['root'], pkg]
    if opts.get('noinit'):
        inits = []
    ex.init_globals(st, inits)
    ex.watch_after_init = ex.nobj
    if job['harness'].startswith('PY:'):
        import pychecks
        out = pychecks.PYCHECKS[job['harness'][3:]](ex, st, prog)
        results = [{'kind': 'concrete', 'label': lab, 'pos': '', 'verdict': 'unsat' if ok else 'concrete-fail', 'detail': det,
                    't': 0.0, 'queries': 0, 'record': None if ok else {'harness': job['harness'], 'params': [], 'inputs': [], 'detail': det}}
                   for (lab, ok, det) in out]
        return {'job': job, 'results': results, 'wall': time.time() - t0, 'exec_s': 0.0, 'stats': dict(ex.stats),
                'dstats': {'solver_s': 0.0, 'queries': 0, 'pair_queries': 0}, 'funcs': sorted(ex.funcs_used), 'notes': [],
                'ninputs': sum(len(v) if isinstance(v, list) else 1 for k, v in ex.inputs), 'effects': [], 'smt2': [], 'dead': False}
    fn = prog.funcs[pkg + '.' + job['harness']]
    stubs.prepare(ex, st, opts)
    s2, _ = ex.call_fn(fn, list(job['params']), st)
    texec = time.time() - t0
    d = Discharger(ex, timeout_ms=opts.get('timeout_ms', 60000))
    results = []
    allow = opts.get('allow_panics', [])
    post = stubs.post_obligations(ex, opts)
    for obl in ex.obls + post:
        if obl.kind == 'panic' and any(a in obl.label for a in allow):
            continue
        if obl.kind == 'reach' and opts.get('no_reach'):
            continue
        r = d.discharge(obl)
        rec = None
        if r.verdict in ('sat', 'sat-abstract'):
            rec = stubs.align_script(ex, r.model, stubs.fix_record(ex, r.model, model_record(ex, r.model, job['harness'], job['params'])))
        results.append({'kind': obl.kind, 'label': obl.label, 'pos': obl.pos, 'verdict': r.verdict, 'detail': r.detail,
                        't': round(r.t, 4), 'queries': r.queries, 'record': rec})
    if opts.get('fdiv_candidates'):
        from discharge import zero_divisor_candidates
        top = ex.obls[-1].pc if ex.obls else ()
        for m in zero_divisor_candidates(ex, d, top):
            results.append({'kind': 'candidate', 'label': 'input with a zero float divisor (IEEE Inf/NaN slice)', 'pos': '', 'verdict': 'sat-candidate',
                            'detail': '', 't': 0.0, 'queries': 0, 'record': model_record(ex, m, job['harness'], job['params'])})
    if any(x['verdict'] not in ('unsat', 'reach-ok', 'sat-candidate') for x in results):
        for m in ex.candidates:
            results.append({'kind': 'candidate', 'label': 'witness of an unpinned value', 'pos': '', 'verdict': 'sat-candidate', 'detail': '',
                            't': 0.0, 'queries': 0, 'record': model_record(ex, m, job['harness'], job['params'])})
    return {
        'job': job, 'results': results, 'wall': time.time() - t0, 'exec_s': texec,
        'stats': dict(ex.stats), 'dstats': dict(d.stats), 'funcs': sorted(ex.funcs_used),
        'notes': sorted(ex.notes), 'ninputs': sum(len(v) if isinstance(v, list) else 1 for k, v in ex.inputs),
        'effects': [(str(o), p) for (_, o, p) in ex.effects][:20], 'smt2': d.smt2[:1],
        'dead': s2 is None,
    }


def _child(job, conn):
    try:
        r = run_job(job)
    except BaseException as e:
        r = {'job': job, 'error': '%s: %s' % (type(e).__name__, e), 'trace': traceback.format_exc()[-3000:], 'results': [], 'wall': 0.0}
    try:
        conn.send(r)
    except BaseException as e:
        conn.send({'job': job, 'error': 'result not transferable: %s' % e, 'results': [], 'wall': 0.0})
    conn.close()
    os._exit(0)


def run_jobs(progpath, jobs, nproc=16):
    """generator of job results (unordered). One forked process per job (the parsed SSA is shared copy-on-write); a job
    that exceeds its wall-clock budget is killed and reported as an error (inconclusive), never waited for."""
    global _PROG
    _init(progpath)
    _prog()                      # parse once, before forking
    import z3                    # noqa: imported before the fork so that children do not pay for it
    if nproc <= 1:
        for j in jobs:
            yield run_job(j)
        return
    from multiprocessing.connection import wait
    ctx = mp.get_context('fork')
    pending = list(jobs)
    active = {}                  # conn -> (process, job, start)
    try:
        while pending or active:
            while pending and len(active) < nproc:
                j = pending.pop(0)
                pr, pw = ctx.Pipe(duplex=False)
                p = ctx.Process(target=_child, args=(j, pw))
                p.start()
                pw.close()
                active[pr] = (p, j, time.time())
            ready = wait(list(active), timeout=5)
            now = time.time()
            for c in ready:
                p, j, t0 = active.pop(c)
                try:
                    r = c.recv()
                except (EOFError, OSError):
                    r = {'job': j, 'error': 'worker process died (killed or crashed)', 'results': [], 'wall': now - t0}
                c.close()
                p.join(1)
                yield r
            for c in list(active):
                p, j, t0 = active[c]
                budget = j.get('opts', {}).get('job_timeout_s', 1800)
                if now - t0 > budget:
                    p.kill()
                    p.join(1)
                    c.close()
                    del active[c]
                    yield {'job': j, 'error': 'job exceeded its wall-clock budget of %ds and was stopped' % budget, 'results': [], 'wall': now - t0}
    finally:
        for c, (p, j, t0) in active.items():
            try:
                p.kill()
            except Exception:
                pass
