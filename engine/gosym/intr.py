"""Intrinsics: harness API (v*), math library models, environment stubs."""
import math
import z3
from vals import *
from ops import *
from mem import *
from core import PathDead, Executor

RP = 'github.com/Trisia/randomness'


def _ret(v):
    return v


# ------------------------------------------------------------------ harness API

def v_bits(ex, fr, st, args, ins):
    n = args[0]
    assert isinstance(n, int)
    k = len(ex.inputs)
    vs = [z3.Bool('x%d_%d' % (k, i)) for i in range(n)]
    ex.inputs.append(('bits', vs))
    oid = ex.new_obj(st, list(vs))
    ex.alloc_epoch[oid] = ex.nobj
    return Slice(oid, (), 0, n, n)


def v_bytes(ex, fr, st, args, ins):
    n = args[0]
    k = len(ex.inputs)
    cells = []
    allbits = []
    for i in range(n):
        g = GSum(8, 0, {})
        for j in range(8):
            b = z3.Bool('y%d_%d_%d' % (k, i, j))   # j = 0 is the most significant bit
            allbits.append(b)
            g = gs_from(gs_add(g, gs_indicator(b, 8, 1 << (7 - j))), 8)
        cells.append(g)
    ex.inputs.append(('bytes', allbits))
    oid = ex.new_obj(st, cells)
    ex.alloc_epoch[oid] = ex.nobj
    return Slice(oid, (), 0, n, n)


def v_bool(ex, fr, st, args, ins):
    k = len(ex.inputs)
    b = z3.Bool('b%d' % k)
    ex.inputs.append(('bool', b))
    return b


def v_int(ex, fr, st, args, ins):
    lo, hi = args[0], args[1]
    k = len(ex.inputs)
    v = z3.BitVec('i%d' % k, 64)
    ex.inputs.append(('int', v))
    st.pc = st.pc + (v >= lo, v <= hi)
    if isinstance(lo, int) and isinstance(hi, int):
        ex.__dict__.setdefault('int_ranges', {})[str(v)] = (v, lo, hi)
    return v


def v_float01(ex, fr, st, args, ins):
    k = len(ex.inputs)
    if getattr(ex, 'fp_inputs', False):
        # bit-precise binary64 input in [0,1] (excludes NaN): comparisons and products round as in IEEE 754
        v = z3.FP('qf%d' % k, F64)
        ex.inputs.append(('float', v))
        st.pc = st.pc + (z3.fpGEQ(v, z3.FPVal(0.0, F64)), z3.fpLEQ(v, z3.FPVal(1.0, F64)))
        return FFP(v)
    v = z3.Real('q%d' % k)
    ex.inputs.append(('float', v))
    st.pc = st.pc + (v >= 0, v <= 1)
    return FReal(v)


def v_real(ex, fr, st, args, ins):
    k = len(ex.inputs)
    v = z3.Real('r%d' % k)
    ex.inputs.append(('float', v))
    return FReal(v)


def v_assume(ex, fr, st, args, ins):
    c = args[0]
    if isinstance(c, bool):
        if not c:
            raise PathDead()
        return None
    def flat(t, out):
        if z3.is_and(t):
            for ch in t.children():
                flat(ch, out)
        else:
            out.append(t)
    parts = []
    flat(c, parts)
    st.pc = st.pc + tuple(parts)
    _mirror_assume(ex, c)
    return None


def _mirror_assume(ex, c):
    """integer (dis)equalities on linear count forms are mirrored on the real cut variables, so that
    real-arithmetic queries see harness assumptions such as ones != 0"""
    import vals as _v
    if z3.is_and(c):
        for ch in c.children():
            _mirror_assume(ex, ch)
        return
    neg = z3.is_not(c)
    inner = c.arg(0) if neg else c
    info = _v._guard_info.get(inner.get_id())
    if info is not None and info[0] == 'eqz':
        t = ex.fc.cut(info[1])
        ex.fc.real_assumes.append(t != 0 if neg else t == 0)


def v_assert(ex, fr, st, args, ins):
    c, label = args[0], args[1]
    if c is True:
        ex.obls.append(__import__('core').Obligation('assert', st.pc, False, label, ins.get('pos', '')))
        return None
    ex.oblige('assert', st, b_not(c), label, ins.get('pos', ''))
    return None


def v_close(ex, fr, st, args, ins):
    a, b, tol, label = args
    ex.oblige('close', st, None, label, ins.get('pos', ''), extra=(a, b, tol))
    return None


def v_reach(ex, fr, st, args, ins):
    ex.oblige('reach', st, True, args[0], ins.get('pos', ''))
    return None


def v_log(ex, fr, st, args, ins):
    ex.log.append((st.pc, 'vLog', args))
    return None


def v_go(ex, fr, st, args, ins):
    return None


def v_wait(ex, fr, st, args, ins):
    return None


def v_watch(ex, fr, st, args, ins):
    ex.watch = ex.nobj + 1
    return None


HARNESS = {
    '#vGo': v_go, '#vWait': v_wait, '#vWatch': v_watch,
    '#vBits': v_bits, '#vBytes': v_bytes, '#vBool': v_bool, '#vInt': v_int, '#vFloat01': v_float01,
    '#vReal': v_real, '#vAssume': v_assume, '#vAssert': v_assert, '#vClose': v_close, '#vReach': v_reach,
    '#vLog': v_log,
}

# ------------------------------------------------------------------ math


def uf1(name):
    def h(ex, fr, st, args, ins):
        x = force(args[0])
        if isinstance(x, float) and name in ('erfc', 'erf'):
            # concrete argument: evaluated with the C library (differs from Go's pure-Go version by ulps only)
            ex.notes.add('erfc/erf on concrete arguments evaluated with libm')
            if math.isnan(x):
                return x
            return math.erfc(x) if name == 'erfc' else math.erf(x)
        f = ex.fc.uf(name, 1)
        return FReal(f(to_real(ex.fc, x)))
    return h


def m_sqrt(ex, fr, st, args, ins):
    x = force(args[0])
    if isinstance(x, FFP):
        return FFP(z3.fpSqrt(RNE, x.t))
    if isinstance(x, float):
        if x < 0:
            return float('nan')
        return math.sqrt(x)
    rx = to_real(ex.fc, x)
    ex.sqrt_args.append((st.pc, rx)) if hasattr(ex, 'sqrt_args') else None
    return FReal(ex.fc.sqrt(rx))


def m_abs(ex, fr, st, args, ins):
    x = force(args[0])
    if isinstance(x, float):
        return abs(x)
    if isinstance(x, FInt):
        neg = int_cmp('<', x.v, 0, 64, True)
        return f_ite(neg, f_neg(ex.fc, x), x)
    rx = to_real(ex.fc, x)
    return FReal(z3.If(rx < 0, -rx, rx))


def m_isnan(ex, fr, st, args, ins):
    x = force(args[0])
    if isinstance(x, float):
        return math.isnan(x)
    if isinstance(x, FFP):
        return z3.fpIsNaN(x.t)
    # real domain: NaN can only come from 0/0, inf-inf, sqrt/log of a negative: those are separate obligations (fdiv0, fdomain)
    return False


def m_min(ex, fr, st, args, ins):
    a, b = args
    c = f_cmp(ex.fc, '<', a, b)
    return f_ite(c, a, b)


def m_max(ex, fr, st, args, ins):
    a, b = args
    c = f_cmp(ex.fc, '>', a, b)
    return f_ite(c, a, b)


def m_pow(ex, fr, st, args, ins):
    x, y = force(args[0]), force(args[1])
    if isinstance(x, float) and isinstance(y, float):
        try:
            return math.pow(x, y)
        except OverflowError:
            return float('inf')
    if isinstance(y, float) and y == 2.0:
        return f_binop(ex.fc, '*', x, x)
    f = ex.fc.uf('pow', 2)
    return FReal(f(to_real(ex.fc, x), to_real(ex.fc, y)))


def m_log(ex, fr, st, args, ins):
    x = force(args[0])
    if isinstance(x, float):
        if x > 0 and not ex.log_uf_concrete:
            return math.log(x)
        if x <= 0:
            return float('-inf') if x == 0 else float('nan')
    rx = to_real(ex.fc, x)
    if hasattr(ex, 'log_args'):
        ex.log_args.append((st.pc, rx))
    return FReal(ex.fc.uf('log', 1)(rx))


def m_ceil(ex, fr, st, args, ins):
    x = force(args[0])
    if isinstance(x, FFP):
        return FFP(z3.fpRoundToIntegral(z3.RTP(), x.t))
    if isinstance(x, float):
        return float(math.ceil(x)) if not (math.isinf(x) or math.isnan(x)) else x
    if isinstance(x, FInt):
        return x
    raise Unsupported('ceil of symbolic real')


def m_floor(ex, fr, st, args, ins):
    x = force(args[0])
    if isinstance(x, FFP):
        return FFP(z3.fpRoundToIntegral(z3.RTN(), x.t))
    if isinstance(x, float):
        return float(math.floor(x)) if not (math.isinf(x) or math.isnan(x)) else x
    if isinstance(x, FInt):
        return x
    raise Unsupported('floor of symbolic real')


def m_sincos(ex, fr, st, args, ins):
    x = force(args[0])
    if isinstance(x, float):
        return (math.sin(x), math.cos(x))
    raise Unsupported('sincos of symbolic')


def m_cabs(ex, fr, st, args, ins):
    x = args[0]
    re, im = force(x.re), force(x.im)
    if isinstance(re, float) and isinstance(im, float):
        return math.hypot(re, im)
    f = ex.fc.uf('cabs', 2)
    return FReal(f(to_real(ex.fc, re), to_real(ex.fc, im)))


def igamc_uf(ex, fr, st, args, ins):
    a, x = force(args[0]), force(args[1])
    f = ex.fc.uf('igamc', 2)
    ra, rx = to_real(ex.fc, a), to_real(ex.fc, x)
    ex.igamc_calls.append((st.pc, ra, rx))
    return FReal(f(ra, rx))


def onescount8(ex, fr, st, args, ins):
    x = force(args[0])
    if isinstance(x, int):
        return bin(x & 0xff).count('1')
    if isinstance(x, GSum):
        sh = x.binary_shape()
        if sh is not None:
            r = GSum(64, 0, {})
            for k, g in sh.items():
                r = gs_from(gs_add(r, gs_indicator(g, 64, 1)), 64)
            return r.const_or_self()
    t = tobv(x, 8)
    acc = None
    for k in range(8):
        b = z3.ZeroExt(63, z3.Extract(k, k, t))
        acc = b if acc is None else acc + b
    return acc


def _bits_fn(kind, w):
    def h(ex, fr, st, args, ins):
        x = force(args[0])
        if isinstance(x, int):
            x &= (1 << w) - 1
            if kind == 'ones':
                return bin(x).count('1')
            if kind == 'len':
                return x.bit_length()
            if kind == 'tz':
                return w if x == 0 else (x & -x).bit_length() - 1
            if kind == 'lz':
                return w - x.bit_length()
        t = tobv(x, w) if not isinstance(x, GSum) or x.w == w else x.bv()
        if kind == 'ones':
            if isinstance(x, GSum):
                sh = x.binary_shape()
                if sh is not None:
                    r = GSum(64, 0, {})
                    for k, g in sh.items():
                        r = gs_from(gs_add(r, gs_indicator(g, 64, 1)), 64)
                    return r.const_or_self()
            acc = None
            for k in range(w):
                b = z3.ZeroExt(63, z3.Extract(k, k, t))
                acc = b if acc is None else acc + b
            return acc
        raise Unsupported('math/bits.%s on a symbolic value' % kind)
    return h


def _binary_uint(w, big):
    def h(ex, fr, st, args, ins):
        sl = args[-1]
        cells = ex.slice_cells(st, sl)
        nb = w // 8
        if len(cells) < nb:
            ex.oblige('bounds', st, True, 'index out of range [%d] with length %d' % (nb - 1, len(cells)), ins.get('pos', ''))
            raise PathDead()
        cs = cells[:nb] if big else list(reversed(cells[:nb]))
        acc = 0
        for c in cs:
            c = force(c)
            cw = int_convert(c, 8, False, w, False)
            acc = int_binop('+', int_binop('<<', acc, 8, w, False) if not isinstance(acc, int) or acc else 0, cw, w, False)
        return acc
    return h


def nop(ex, fr, st, args, ins):
    return None


def errors_new(ex, fr, st, args, ins):
    return Iface('*errors.errorString', Opaque('error', ('errors.New', args[0])))


def fmt_errorf(ex, fr, st, args, ins):
    fmtstr = args[0]
    va = args[1]
    cells = ex.slice_cells(st, va) if isinstance(va, Slice) else []
    vals_ = tuple(c.val if isinstance(c, Iface) else c for c in cells)
    o = Opaque('error', ('fmt.Errorf', fmtstr, vals_))
    ex.log.append((st.pc, 'fmt.Errorf', (fmtstr, vals_)))
    return Iface('*fmt.wrapError', o)


def fmt_sprintf(ex, fr, st, args, ins):
    fmtstr = args[0]
    va = args[1]
    cells = ex.slice_cells(st, va) if isinstance(va, Slice) else []
    vals_ = tuple(c.val if isinstance(c, Iface) else c for c in cells)
    if all(isinstance(v, (int, str, float)) and not isinstance(v, bool) for v in vals_):
        try:
            return fmtstr.replace('%0.6f', '%.6f') % vals_
        except Exception:
            pass
    return ('sprintf', fmtstr, vals_)


def err_error(ex, fr, st, args, ins):
    o = args[0]
    return ('errstr', o.data)


MATH = {
    'math.IsNaN': m_isnan, 'math.Sqrt': m_sqrt, 'math.Abs': m_abs, 'math.Erfc': uf1('erfc'), 'math.Erf': uf1('erf'),
    'math.Exp': uf1('exp'), 'math.Log': m_log, 'math.Pow': m_pow, 'math.Min': m_min, 'math.Max': m_max,
    'math.Ceil': m_ceil, 'math.Floor': m_floor, 'math.Sincos': m_sincos, 'math/cmplx.Abs': m_cabs,
    'math/bits.OnesCount8': onescount8, 'math/bits.OnesCount16': _bits_fn('ones', 16), 'math/bits.OnesCount32': _bits_fn('ones', 32),
    'math/bits.OnesCount64': _bits_fn('ones', 64), 'math/bits.OnesCount': _bits_fn('ones', 64),
    'math/bits.Len': _bits_fn('len', 64), 'math/bits.Len64': _bits_fn('len', 64), 'math/bits.Len32': _bits_fn('len', 32),
    'math/bits.Len16': _bits_fn('len', 16), 'math/bits.Len8': _bits_fn('len', 8),
    'math/bits.TrailingZeros': _bits_fn('tz', 64), 'math/bits.TrailingZeros64': _bits_fn('tz', 64), 'math/bits.TrailingZeros32': _bits_fn('tz', 32),
    'math/bits.LeadingZeros': _bits_fn('lz', 64), 'math/bits.LeadingZeros64': _bits_fn('lz', 64), 'math/bits.LeadingZeros32': _bits_fn('lz', 32),
    '(encoding/binary.bigEndian).Uint16': _binary_uint(16, True), '(encoding/binary.bigEndian).Uint32': _binary_uint(32, True),
    '(encoding/binary.bigEndian).Uint64': _binary_uint(64, True), '(encoding/binary.littleEndian).Uint16': _binary_uint(16, False),
    '(encoding/binary.littleEndian).Uint32': _binary_uint(32, False), '(encoding/binary.littleEndian).Uint64': _binary_uint(64, False),
    RP + '.igamc': igamc_uf, RP + '.Igamc': igamc_uf,
    '(*sync.Mutex).Lock': nop, '(*sync.Mutex).Unlock': nop, '(*sync.RWMutex).Lock': nop, '(*sync.RWMutex).Unlock': nop,
    '(*sync.RWMutex).RLock': nop, '(*sync.RWMutex).RUnlock': nop,
    'fmt.Println': nop, 'fmt.Printf': nop, 'log.Printf': nop, 'log.Println': nop, 'fmt.Print': nop,
    'errors.New': errors_new, 'fmt.Errorf': fmt_errorf, 'fmt.Sprintf': fmt_sprintf,
    '#opaque.error.Error': err_error,
    'math.init': nop, 'math/cmplx.init': nop, 'math/bits.init': nop, 'bufio.init': nop, 'crypto/rand.init': nop,
    'fmt.init': nop, 'io/ioutil.init': nop, 'os.init': nop, 'strings.init': nop, 'errors.init': nop, 'io.init': nop,
    'runtime.init': nop, 'sync.init': nop, 'sync/atomic.init': nop, 'flag.init': nop, 'log.init': nop,
    'path/filepath.init': nop, 'path.init': nop, 'time.init': nop,
}


def make_executor(prog, extra=None, **kw):
    intr = {}
    intr.update(HARNESS)
    intr.update(MATH)
    if extra:
        intr.update(extra)
    ex = Executor(prog, intr, **kw)
    ex.igamc_calls = []
    ex.log_args = []
    ex.sqrt_args = []
    ex.log_uf_concrete = False
    return ex
