"""Per-harness environment stubs (selected by name in the job options)."""
import z3
from vals import *
from ops import *
from mem import *

REGISTRY = {}


def stubset(name):
    def deco(f):
        REGISTRY[name] = f
        return f
    return deco


def select(names):
    extra = {}
    for n in names:
        extra.update(REGISTRY[n]())
    return extra


def prepare(ex, st, opts):
    pass


def post_obligations(ex, opts):
    return []
