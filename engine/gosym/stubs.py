"""Per-harness environment stubs (selected by name in the job options)."""
import z3
from fractions import Fraction
from vals import *
from ops import *
from mem import *

REGISTRY = {}


def stubset(name):
    def deco(f):
        REGISTRY[name] = f
        return f
    return deco


def select(names):
    extra = {}
    for n in names:
        extra.update(REGISTRY[n]())
    return extra


def prepare(ex, st, opts):
    pass


def post_obligations(ex, opts):
    return []


def _uniformity_p(values):
    """ThresholdQ re-implemented for the witness search (scipy igamc): ten bins, chi-square against s/10, Q(9/2, V/2)"""
    from scipy.special import gammaincc
    n = len(values)
    hist = [0] * 10
    for q in values:
        b = min(9, int(q * 10)) if q < 1 else 9
        for t, edge in enumerate((0.1, 0.2, 0.3, 0.4, 0.5, 0.6, 0.7, 0.8, 0.9)):
            if q < edge:
                b = t
                break
        else:
            b = 9
        hist[b] += 1
    sk = n / 10.0
    v = sum((h - sk) ** 2 / sk for h in hist)
    return float(gammaincc(4.5, v / 2))


def align_script(ex, model, rec):
    """the model numbers scripted round results by call SITE instance (i-th potential call of the sequentialised run); the
    native scripted rounds number them by call COUNT. When a potential call does not happen in the model (sample lost after a
    read error) the rows are permuted so that the k-th call that does happen natively receives the row the model gave it."""
    sc = getattr(ex, 'script', None)
    if sc is None or model is None or not getattr(sc, 'calls', None):
        return rec
    live = []
    for i, c in enumerate(sc.calls):
        g = c[0]
        if i >= sc.s:
            break
        v = g if isinstance(g, bool) else z3.is_true(model.eval(g, model_completion=True))
        if v:
            live.append(i)
    order = live + [i for i in range(sc.s) if i not in live]
    if order == list(range(sc.s)):
        return rec
    pos = {}
    for p_, (kind, v) in enumerate(ex.inputs):
        if isinstance(v, z3.ExprRef):
            pos[str(v)] = p_
    ins = rec['inputs']
    old = [dict(x) for x in ins]
    for k, src in enumerate(order):
        for j in range(sc.items):
            for nm in ('pass_%d_%d', 'q_%d_%d'):
                a, b = pos.get(nm % (k, j)), pos.get(nm % (src, j))
                if a is not None and b is not None:
                    ins[a] = old[b]
    return rec


def fix_record(ex, model, rec):
    """make a replay record consistent with the summarised ThresholdQ: the model only says on which side of 0.0001 the
    uniformity P-value of every list passed to ThresholdQ lies; concrete Q-values realising those sides (lists may share
    Q-values and contain constants on some paths) are found by a small randomised search with the real statistic"""
    tab = getattr(ex, 'tq_table', None)
    if not tab or model is None:
        return rec
    import random
    byname = {}
    pos = 0
    for kind, v in ex.inputs:
        if kind == 'float':
            byname[str(v)] = pos
        pos += 1
    cells_of = {}
    for cells in getattr(ex, 'tq_keep', []):
        key = tuple((c.t.get_id() if isinstance(c, FReal) else ('c', c)) for c in cells)
        cells_of[key] = cells
    # every list as a sequence of ('var', name) | ('const', value) under the model, with its required side
    lists = []
    for key, var in tab.items():
        val = model.eval(var, model_completion=True)
        try:
            low = val.as_fraction() < Fraction(1, 10000)
        except Exception:
            low = False
        cells = cells_of.get(key)
        if cells is None:
            continue
        seq = []
        for c in cells:
            if isinstance(c, FReal):
                t = c.t
                for _ in range(200):
                    if z3.is_app(t) and t.decl().kind() == z3.Z3_OP_ITE:
                        t = t.arg(1) if z3.is_true(model.eval(t.arg(0), model_completion=True)) else t.arg(2)
                    else:
                        break
                if z3.is_const(t) and str(t) in byname:
                    seq.append(('var', str(t)))
                elif z3.is_rational_value(t) or z3.is_int_value(t):
                    seq.append(('const', float(t.as_fraction())))
                else:
                    v = model.eval(t, model_completion=True)
                    try:
                        seq.append(('const', float(v.as_fraction())))
                    except Exception:
                        seq.append(('const', 0.0))
            else:
                seq.append(('const', float(c) if isinstance(c, (int, float)) else 0.0))
        lists.append((seq, low))
    # group lists by shared variables (columns)
    groups = []
    for seq, low in lists:
        vs = {n for k, n in seq if k == 'var'}
        for g in groups:
            if g['vars'] & vs:
                g['vars'] |= vs
                g['lists'].append((seq, low))
                break
        else:
            groups.append({'vars': set(vs), 'lists': [(seq, low)]})
    rnd = random.Random(12345)
    for g in groups:
        names = sorted(g['vars'])
        if not names:
            continue

        def ok(assign):
            for seq, low in g['lists']:
                vals = [assign[n] if k == 'var' else n for k, n in seq]
                p = _uniformity_p(vals)
                if low != (p < 0.0001):
                    return False
            return True
        n = len(names)
        cands = [{nm: (i + 0.5) / n for i, nm in enumerate(names)}, {nm: 0.0 for nm in names}]
        found = None
        for a in cands:
            if ok(a):
                found = a
                break
        tries = 0
        while found is None and tries < 4000:
            tries += 1
            # skewed random histograms: concentrate mass in a few bins with varying strength
            k = rnd.randint(1, 4)
            hot = [rnd.randint(0, 9) for _ in range(k)]
            w = rnd.random()
            a = {}
            for nm in names:
                bsel = rnd.choice(hot) if rnd.random() < w else rnd.randint(0, 9)
                a[nm] = (bsel + 0.5) / 10
            if ok(a):
                found = a
        if found is not None:
            for nm, v in found.items():
                rec['inputs'][byname[nm]]['f'] = v
    return rec


# ---------------------------------------------------------------------------------------------
# workflow stubs (detect package): scripted round results, instrumented byte source, io.ReadFull by contract

DP = 'github.com/Trisia/randomness/detect'


class Script(object):
    pass


def _pc_guard(st):
    g = True
    for x in st.pc:
        g = b_and(g, x)
    return g


def wf_script_rounds(ex, fr, st, args, ins):
    s, items = args
    sc = Script()
    sc.s, sc.items = s, items
    base = len(ex.inputs)
    sc.passv = [[z3.Bool('pass_%d_%d' % (k, j)) for j in range(items)] for k in range(s)]
    sc.qv = [[z3.Real('q_%d_%d' % (k, j)) for j in range(items)] for k in range(s)]
    for k in range(s):
        for j in range(items):
            ex.inputs.append(('bool', sc.passv[k][j]))
    cons = []
    for k in range(s):
        for j in range(items):
            ex.inputs.append(('float', sc.qv[k][j]))
            cons += [sc.qv[k][j] >= 0, sc.qv[k][j] <= 1]
    st.pc = st.pc + tuple(cons)
    sc.calls = []      # (guard, name, buflen, bufpos)
    ex.script = sc
    return None


def wf_pass(ex, fr, st, args, ins):
    return ex.script.passv[args[0]][args[1]]


def wf_q(ex, fr, st, args, ins):
    return FReal(ex.script.qv[args[0]][args[1]])


def wf_round_calls(ex, fr, st, args, ins):
    r = GSum(64, 0, {})
    n = 0
    for (g, name, bl, bp) in ex.script.calls:
        if g is True:
            n += 1
        else:
            r = gs_from(gs_add(r, gs_indicator(g, 64, 1)), 64)
    return gs_add(r, GSum(64, n, {}))


def _call_field(idx):
    def h(ex, fr, st, args, ins):
        k = args[0]
        if k >= len(ex.script.calls):
            return '' if idx == 1 else -1
        return ex.script.calls[k][idx]
    return h


def _mk_round(name, n):
    def h(ex, fr, st, args, ins):
        data = args[0]
        sc = ex.script
        k = len(sc.calls)
        blk = st.heap.get(data.obj) if data.obj is not None else None
        if isinstance(blk, StreamBlock) and data.off == 0:
            pos = blk.start
        else:
            pos = -1
        sc.calls.append((_pc_guard(st), name, data.len, pos))
        cells = []
        for j in range(n):
            if k < sc.s and j < sc.items:
                val = ['', 0.0, FReal(sc.qv[k][j]), 0.0, 0.0, sc.passv[k][j]]
            else:
                val = ['', 0.0, 0.0, 0.0, 0.0, False]
            oid = ex.new_obj(st, val)
            ex.alloc_epoch[oid] = ex.nobj
            cells.append(Ptr(oid, ()))
        oid = ex.new_obj(st, cells)
        ex.alloc_epoch[oid] = ex.nobj
        return Slice(oid, (), 0, n, n)
    return h


def wf_readfull(ex, fr, st, args, ins):
    """io.ReadFull by contract on a vStream without failure/chunking: fills the whole buffer with the next len(buf)
    stream bytes and returns (len(buf), nil)"""
    r, buf = args
    if not (isinstance(r, Iface) and r.typ.endswith('.vStream')):
        raise Unsupported('io.ReadFull on %r' % (r,))
    sp = r.val
    fields = ex.load(st, sp, r.typ[1:])
    pos, reads, failAt, failErr, maxChunk = fields[:5]
    n = buf.len
    if not (isinstance(failAt, int) and failAt < 0):
        h = ex.intr.get('#readfull_faulty')
        if h is None:
            raise Unsupported('ReadFull on a failing stream')
        return h(ex, fr, st, args, ins)
    if not (buf.off == 0 and isinstance(n, int)):
        raise Unsupported('ReadFull into a sub-slice')
    st.heap[buf.obj] = StreamBlock(pos, n)
    ex.store(st, Ptr(sp.obj, sp.path + (0,)), int_binop('+', pos, n, 64, True))
    ex.store(st, Ptr(sp.obj, sp.path + (1,)), int_binop('+', reads, 1, 64, True))
    ex.log.append((st.pc, 'io.ReadFull', (pos, n)))
    return (n, None)


def wf_err_item(ex, fr, st, args, ins):
    err = args[0]
    names = ex.item_names(st)

    def one(e):
        if e is None:
            return -1
        if isinstance(e, SymChoice):
            res = None
            for g, a in reversed(e.alts):
                v = one(a)
                res = v if res is None else int_ite(g, v, res, 64)
            return res
        if isinstance(e, Iface):
            v = e.val
            if isinstance(v, SymChoice):
                idx = one(SymChoice([(g, Iface(e.typ, a)) for g, a in v.alts]))
            elif isinstance(v, Opaque) and v.kind == 'error' and v.data[0] == 'fmt.Errorf' and v.data[2] and isinstance(v.data[2][0], str):
                idx = names.index(v.data[2][0]) if v.data[2][0] in names else -1
            else:
                idx = -1
            if e.isnil is False:
                return idx
            return int_ite(e.isnil, -1, idx, 64)
        return -1
    return one(err)


@stubset('workflow')
def _workflow():
    return {
        '#vScriptRounds': wf_script_rounds, '#vPass': wf_pass, '#vQ': wf_q, '#vRoundCalls': wf_round_calls,
        '#vRoundName': _call_field(1), '#vRoundBufLen': _call_field(2), '#vRoundBufPos': _call_field(3),
        '#vErrItem': wf_err_item,
        DP + '.Round15': _mk_round('Round15', 15), DP + '.Round12': _mk_round('Round12', 12),
        'io.ReadFull': wf_readfull,
    }


def tq_summary(ex, fr, st, args, ins):
    """detect.ThresholdQ summarised (its definition is C12): the result is a function of the list of Q-values"""
    cells = ex.slice_cells(st, args[0])
    key = tuple((c.t.get_id() if isinstance(c, FReal) else ('c', c)) for c in cells)
    pin(*[c.t for c in cells if isinstance(c, FReal)])
    tab = ex.__dict__.setdefault('tq_table', {})
    v = tab.get(key)
    if v is None:
        v = z3.Real('tq!%d' % len(tab))
        tab[key] = v
        ex.__dict__.setdefault('tq_keep', []).append(cells)
    ex.log.append((st.pc, 'ThresholdQ', key))
    return FReal(v)


@stubset('tq_summary')
def _tq():
    return {DP + '.ThresholdQ': tq_summary, DP + '.specThresholdQ': tq_summary}


# ---------------------------------------------------------------------------------------------
# single-shot detection: symbolic buffer length, poker summarised as a function of (stream kind, start, length, m)

def _poker_uf(ex):
    f = ex.__dict__.get('poker_uf')
    if f is None:
        bv = z3.BitVecSort(64)
        f = z3.Function('poker', bv, bv, bv, bv, z3.RealSort())
        ex.poker_uf = f
    return f


def sd_makeslice_sym(ex, fr, st, n, c, ins):
    """make([]byte, n) with symbolic n: contents are never indexed by the code under test here"""
    neg = int_cmp('<', n, 0, 64, True)
    if neg is not False:
        ex.oblige('panic', st, neg, 'makeslice: len out of range', ins.get('pos', ''))
        if neg is True:
            raise __import__('core').PathDead()
        st.pc = st.pc + (b_not(neg),)
    oid = ex.new_obj(st, StreamBlock(-1, n, fresh=0))
    ex.alloc_epoch[oid] = ex.nobj
    return Slice(oid, (), 0, n, n)


def sd_readfull(ex, fr, st, args, ins):
    r, buf = args
    sp = r.val
    fields = ex.load(st, sp, r.typ[1:])
    pos, reads, failAt, failErr, maxChunk, kind = fields[:6]
    n = buf.len
    if not (isinstance(failAt, int) and failAt < 0):
        raise Unsupported('ReadFull on a failing stream (single detect stub)')
    blk = StreamBlock(pos, n)
    blk_kind[id(blk)] = kind
    ex.__dict__.setdefault('blk_keep', []).append(blk)
    st.heap[buf.obj] = blk
    # io.ReadFull with an empty buffer returns (0, nil) without calling Read
    isz = int_cmp('==', n, 0, 64, True)
    ex.store(st, Ptr(sp.obj, sp.path + (0,)), int_binop('+', pos, n, 64, True))
    ex.store(st, Ptr(sp.obj, sp.path + (1,)), int_ite(isz, reads, int_binop('+', reads, 1, 64, True), 64))
    return (n, None)


blk_kind = {}


def sd_poker_bytes(ex, fr, st, args, ins):
    data, m = args
    if isinstance(data, SymChoice):
        res = None
        for g, a in reversed(data.alts):
            r = sd_poker_bytes(ex, fr, st, [a, m], ins)
            res = r if res is None else (f_ite(g, r[0], res[0]), f_ite(g, r[1], res[1]))
        return res
    if data.obj is None:
        f = _poker_uf(ex)
        p = f(z3.BitVecVal(0, 64), z3.BitVecVal(0, 64), z3.BitVecVal(0, 64), tobv(m, 64))
        return (FReal(p), FReal(p))
    blk = st.heap.get(data.obj)
    if not isinstance(blk, StreamBlock):
        raise Unsupported('poker stub: buffer was not filled by ReadFull')
    kind = blk_kind.get(id(blk), 0)
    f = _poker_uf(ex)
    p = f(tobv(kind, 64), tobv(blk.start, 64), tobv(data.len, 64), tobv(m, 64))
    ex.log.append((st.pc, 'PokerTestBytes', (kind, blk.start, data.len, m)))
    return (FReal(p), FReal(p))


def sd_poker_expect(ex, fr, st, args, ins):
    kind, n, m = args
    f = _poker_uf(ex)
    return FReal(f(tobv(kind, 64), z3.BitVecVal(0, 64), tobv(n, 64), tobv(m, 64)))


@stubset('single')
def _single():
    from intr import RP
    return {
        '#makeslice_sym': sd_makeslice_sym, 'io.ReadFull': wf_readfull_general,
        RP + '.PokerTestBytes': sd_poker_bytes, '#vPokerExpect': sd_poker_expect,
    }


# ---------------------------------------------------------------------------------------------
# goroutines / channels / WaitGroup / mutex under ONE schedule (sequentialisation): goroutines started with `go`
# are parked; at WaitGroup.Wait they run one after another, each until it returns or blocks on an empty channel.
# Schedule independence is argued from the per-iteration disjointness / commutation obligations (DESIGN 3).

class Parked(BaseException):
    def __init__(self, st):
        self.st = st


def _conc(ex):
    c = ex.__dict__.get('conc')
    if c is None:
        c = {'chans': {}, 'pending': [], 'nchan': 0, 'lockdepth': 0, 'reads_unlocked': 0, 'finished': 0, 'parked': 0}
        ex.conc = c
    return c


def c_makechan(ex, fr, st, ins):
    c = _conc(ex)
    c['nchan'] += 1
    cid = c['nchan']
    c['chans'][cid] = {'q': [], 'closed': False}
    return Opaque('chan', cid)


def c_send(ex, fr, st, ch, v, ins):
    c = _conc(ex)
    q = c['chans'][ch.data]
    if q['closed']:
        ex.oblige('panic', st, True, 'send on closed channel', ins.get('pos', ''))
        raise __import__('core').PathDead()
    q['q'].append(v)
    return None


def c_recv(ex, fr, st, ch, ins):
    c = _conc(ex)
    q = c['chans'][ch.data]
    if q['q']:
        v = q['q'].pop(0)
        c['iter'] = c.get('iter', 0) + 1
        return (v, True) if ins.get('commaok') else v
    if q['closed']:
        return (0, False) if ins.get('commaok') else 0
    raise Parked(st)


def c_close(ex, fr, st, ch, ins):
    c = _conc(ex)
    c['chans'][ch.data]['closed'] = True
    return None


def _share_track(ex, st, p, pos):
    """plain (non-atomic, unlocked) stores made by goroutines to memory that existed before they were started: two
    different loop iterations (jobs) storing to the same cell would be a data race between workers"""
    c = _conc(ex)
    if not c.get('in_goroutine') or c['lockdepth'] > 0:
        return
    if not isinstance(p, Ptr) or not isinstance(p.obj, str):
        return
    if ex.alloc_epoch.get(p.obj, 0) >= c.get('go_epoch', 1 << 60):
        return
    key = (p.obj,) + tuple(e if isinstance(e, int) else ('sym', id(e)) for e in p.path)
    c.setdefault('shared_writes', {}).setdefault(key, set()).add((c.get('goroutine_no', 0), c.get('iter', 0)))
    c.setdefault('shared_pos', {})[key] = pos


def c_go(ex, fr, st, ins):
    c = _conc(ex)
    c.setdefault('go_epoch', ex.nobj + 1)
    ex.share_track = _share_track
    args = [ex.val(fr, a) for a in ins['args']]
    f = ex.val(fr, ins['fn'])
    c['pending'].append((f, args))
    return None


def _wg_key(p):
    return 'wg:%s:%s' % (p.obj, '.'.join(str(x) for x in p.path))


def c_wg_add(ex, fr, st, args, ins):
    k = _wg_key(args[0])
    st.heap[k] = int_binop('+', st.heap.get(k, 0), args[1], 64, True)
    return None


def c_wg_done(ex, fr, st, args, ins):
    k = _wg_key(args[0])
    st.heap[k] = int_binop('-', st.heap.get(k, 0), 1, 64, True)
    neg = int_cmp('<', st.heap[k], 0, 64, True)
    if neg is not False:
        ex.oblige('panic', st, neg, 'sync: negative WaitGroup counter', ins.get('pos', ''))
    return None


def c_wg_wait(ex, fr, st, args, ins):
    c = _conc(ex)
    k = _wg_key(args[0])
    # run the parked goroutines one after another
    pending, c['pending'] = c['pending'], []
    for f, a in pending:
        c['in_goroutine'] = True
        c['goroutine_no'] = c.get('goroutine_no', 0) + 1
        try:
            ex.call_value(fr, st, f, a, ins)
            c['finished'] += 1
        except Parked as e:
            c['parked'] += 1
            st.heap = e.st.heap
            st.pc = e.st.pc
        finally:
            c['in_goroutine'] = False
    for key, who in c.get('shared_writes', {}).items():
        if len(who) > 1:
            ex.oblige('race', st, True, 'two worker iterations store to the same shared memory cell without atomic operation or lock (data race between workers): %s' % (key[0],), c.get('shared_pos', {}).get(key, ''))
    c['shared_writes'] = {}
    cnt = st.heap.get(k, 0)
    nz = int_cmp('!=', cnt, 0, 64, True)
    if nz is not False:
        ex.oblige('deadlock', st, nz, 'WaitGroup.Wait blocks forever: counter does not reach zero (a worker path misses Done)', ins.get('pos', ''))
        if nz is True:
            raise __import__('core').PathDead()
        st.pc = st.pc + (b_not(nz),)
    return None


def c_lock(ex, fr, st, args, ins):
    _conc(ex)['lockdepth'] += 1
    return None


def c_unlock(ex, fr, st, args, ins):
    _conc(ex)['lockdepth'] -= 1
    return None


def c_atomic_add32(ex, fr, st, args, ins):
    p, d = args
    old = ex.load(st, p, 'int32')
    new = int_binop('+', old, d, 32, True)
    c = _conc(ex)
    c['lockdepth'] += 1        # an atomic read-modify-write is not a plain store
    try:
        ex.store(st, p, new)
    finally:
        c['lockdepth'] -= 1
    return new


def c_numcpu(ex, fr, st, args, ins):
    return 2


def _fail_once(ex, st, sp):
    typ = next(t for t in ex.prog.types if t.endswith('/detect.vStream'))
    f = ex.load(st, sp, typ)
    return f[7] if len(f) > 7 else False


def vs_read(ex, fr, st, args, ins):
    c0 = _conc(ex)
    c0['lockdepth'] += 1
    c0['stream_internal'] = c0.get('stream_internal', 0) + 1
    try:
        return _vs_read(ex, fr, st, args, ins)
    finally:
        c0['lockdepth'] -= 1
        c0['stream_internal'] -= 1


def _vs_read(ex, fr, st, args, ins):
    """(*vStream).Read: delivers the next bytes of the stream; may deliver fewer than requested (maxChunk) and may
    fail at stream offset failAt (then the bytes before failAt are still delivered together with the error)"""
    sp, p = args
    typ = next(t for t in ex.prog.types if t.endswith('/detect.vStream'))
    pos, reads, failAt, failErr, maxChunk, kind = ex.load(st, sp, typ)[:6]
    n = p.len
    c = _conc(ex)
    if c['lockdepth'] - c.get('stream_internal', 0) == 0:
        c['reads_unlocked'] += 1
    want = n
    if not (isinstance(maxChunk, int) and maxChunk <= 0):
        lim = int_cmp('>', maxChunk, 0, 64, True)
        small = b_and(lim, int_cmp('<', maxChunk, n, 64, True))
        want = int_ite(small, maxChunk, n, 64)
    if isinstance(failAt, int) and failAt < 0:
        deliver, failc = want, False
    else:
        failc = b_and(int_cmp('>=', failAt, 0, 64, True), int_cmp('>', int_binop('+', pos, want, 64, True), failAt, 64, True))
        rest = int_binop('-', failAt, pos, 64, True)
        rest = int_ite(int_cmp('<', rest, 0, 64, True), 0, rest, 64)
        deliver = int_ite(failc, rest, want, 64)
    if isinstance(p.off, int) and p.off == 0 and p.obj is not None:
        old = st.heap.get(p.obj)
        blk = StreamBlock(pos, n)
        blk.fresh = deliver
        blk_kind[id(blk)] = kind
        ex.__dict__.setdefault('blk_keep', []).append(blk)
        st.heap[p.obj] = blk
    elif p.obj is not None and isinstance(st.heap.get(p.obj), StreamBlock):
        # read into buf[off:]: the buffer stays a block of consecutive stream bytes iff the new bytes continue it
        old = st.heap[p.obj]
        of = old.n if old.fresh is True else old.fresh
        cont = b_and(int_cmp('==', p.off, of, 64, True), int_cmp('==', pos, int_binop('+', old.start, of, 64, True), 64, True))
        blk = StreamBlock(old.start, old.n)
        blk.fresh = int_ite(cont, int_binop('+', of, deliver, 64, True), int_ite(int_cmp('<', p.off, of, 64, True), p.off, of, 64), 64)
        blk_kind[id(blk)] = kind
        ex.__dict__.setdefault('blk_keep', []).append(blk)
        st.heap[p.obj] = blk
    else:
        raise Unsupported('vStream.Read into a sub-slice')
    ex.store(st, Ptr(sp.obj, sp.path + (0,)), int_binop('+', pos, deliver, 64, True))
    ex.store(st, Ptr(sp.obj, sp.path + (1,)), int_binop('+', reads, 1, 64, True))
    if failc is False:
        err = None
    else:
        once = _fail_once(ex, st, sp)
        if once is not False:
            ex.store(st, Ptr(sp.obj, sp.path + (2,)), int_ite(b_and(failc, once), -1, failAt, 64))
        err = _err_value(_stream_err_id(ex), b_not(failc))
    return (deliver, err)


def wf_readfull_general(ex, fr, st, args, ins):
    c0 = _conc(ex)
    c0['lockdepth'] += 1
    c0['stream_internal'] = c0.get('stream_internal', 0) + 1
    try:
        return _wf_readfull_general(ex, fr, st, args, ins)
    finally:
        c0['lockdepth'] -= 1
        c0['stream_internal'] -= 1


def _wf_readfull_general(ex, fr, st, args, ins):
    """io.ReadFull by contract on a vStream that may fail / deliver short reads: either the buffer is filled with the
    next len(buf) bytes and (len, nil) is returned, or the stream fails first: the bytes before the failure point are
    delivered and a non-nil error is returned (io.EOF, io.ErrUnexpectedEOF or the source's own error)"""
    r, buf = args
    if isinstance(r, Iface) and r.typ.endswith('.vStream'):
        sp, styp = r.val, r.typ[1:]
        ex.last_stream = (sp, styp)
    elif getattr(ex, 'last_stream', None) is not None:
        # the source wrapped in an adapter: the contract is applied to the harness stream behind it
        sp, styp = ex.last_stream
        ex.notes.add('io.ReadFull called on a wrapper of the harness stream: contract applied to the underlying stream')
    else:
        raise Unsupported('io.ReadFull on %r' % (r,))
    pos, reads, failAt, failErr, maxChunk, kind = ex.load(st, sp, styp)[:6]
    alts = buf.alts if isinstance(buf, SymChoice) else [(True, buf)]
    n = None
    for g, a in reversed(alts):
        n = a.len if n is None else int_ite(g, a.len, n, 64)
    c = _conc(ex)
    if c['lockdepth'] - c.get('stream_internal', 0) == 0:
        c['reads_unlocked'] += 1
    if isinstance(failAt, int) and failAt < 0:
        ok, deliver = True, n
    else:
        ok = b_or(int_cmp('<', failAt, 0, 64, True), int_cmp('<=', int_binop('+', pos, n, 64, True), failAt, 64, True))
        rest = int_binop('-', failAt, pos, 64, True)
        rest = int_ite(int_cmp('<', rest, 0, 64, True), 0, rest, 64)
        deliver = int_ite(ok, n, rest, 64)
    for g, a in alts:
        if a.obj is None and isinstance(a.len, int) and a.len == 0:
            continue          # nil / empty buffer: nothing to fill
        if not (a.off == 0 and a.obj is not None):
            raise Unsupported('ReadFull into a sub-slice')
        blk = StreamBlock(pos, a.len)
        blk.fresh = deliver
        blk_kind[id(blk)] = kind
        ex.__dict__.setdefault('blk_keep', []).append(blk)
        if g is True:
            st.heap[a.obj] = blk
        else:
            old_ = st.heap.get(a.obj)
            if isinstance(old_, StreamBlock):
                blk_kind[id(old_)] = blk_kind.get(id(old_), kind)
            m_ = merge_tree(ex.prog, g, blk, old_)
            blk_kind[id(m_)] = kind
            ex.blk_keep.append(m_)
            st.heap[a.obj] = m_
    ex.store(st, Ptr(sp.obj, sp.path + (0,)), int_binop('+', pos, deliver, 64, True))
    # io.ReadFull with an empty buffer returns (0, nil) without calling Read
    isz = int_cmp('==', n, 0, 64, True)
    ex.store(st, Ptr(sp.obj, sp.path + (1,)), int_ite(isz, reads, int_binop('+', reads, 1, 64, True), 64))
    if ok is True:
        err = None
    else:
        once = _fail_once(ex, st, sp)
        if once is not False:
            ex.store(st, Ptr(sp.obj, sp.path + (2,)), int_ite(b_and(b_not(ok), once), -1, failAt, 64))
        # io.ReadFull: nothing read -> the reader's error; partial -> io.ErrUnexpectedEOF if the reader said io.EOF
        sid = _stream_err_id(ex)
        partial = int_cmp('>', deliver, 0, 64, True)
        eid = int_ite(b_and(partial, int_cmp('==', sid, 1, 64, True)), 2, sid, 64)
        err = _err_value(eid, ok)
    return (deliver, err)


def _mk_round2(name, nres):
    base = _mk_round(name, nres)

    def h(ex, fr, st, args, ins):
        data = args[0]
        blk = st.heap.get(data.obj) if data.obj is not None else None
        fresh = blk.fresh if isinstance(blk, StreamBlock) else 0
        if fresh is True:
            fresh = blk.n
        ex.__dict__.setdefault('round_fresh', []).append(fresh)
        return base(ex, fr, st, args, ins)
    return h


def wf_round_fresh(ex, fr, st, args, ins):
    k = args[0]
    rf = ex.__dict__.get('round_fresh', [])
    return rf[k] if k < len(rf) else -1


def wf_script_reset(ex, fr, st, args, ins):
    sc = ex.script
    ex.__dict__.setdefault('script_runs', []).append(sc.calls)
    sc.calls = []
    ex.__dict__.setdefault('round_fresh_runs', []).append(ex.__dict__.get('round_fresh', []))
    ex.round_fresh = []
    return None


def wf_reads_unlocked(ex, fr, st, args, ins):
    return _conc(ex)['reads_unlocked']


def wf_parked(ex, fr, st, args, ins):
    return _conc(ex)['parked']


@stubset('fast')
def _fast():
    d = dict(_workflow())
    d.update({
        '#makechan': c_makechan, '#send': c_send, '#recv': c_recv, '#close': c_close, '#go': c_go,
        '(*sync.WaitGroup).Add': c_wg_add, '(*sync.WaitGroup).Done': c_wg_done, '(*sync.WaitGroup).Wait': c_wg_wait,
        '(*sync.Mutex).Lock': c_lock, '(*sync.Mutex).Unlock': c_unlock,
        'sync/atomic.AddInt32': c_atomic_add32, 'runtime.NumCPU': c_numcpu,
        '(*' + DP + '.vStream).Read': vs_read, 'io.ReadFull': wf_readfull_general,
        DP + '.Round15': _mk_round2('Round15', 15), DP + '.Round12': _mk_round2('Round12', 12),
        '#vRoundBufFresh': wf_round_fresh, '#vScriptReset': wf_script_reset, '#vReadsUnlocked': wf_reads_unlocked,
    })
    return d


def wf_round_pos_ok(ex, fr, st, args, ins):
    s, nbytes = args
    calls = ex.script.calls
    ok = True
    for k in range(s):
        if k >= len(calls):
            return False
        ok = b_and(ok, int_cmp('==', calls[k][3], k * nbytes, 64, True))
    return ok


def _err_value(eid, isnil=False):
    return Iface('*errors.errorString', Opaque('error', ('id', eid)), isnil)


def wf_fail_err(ex, fr, st, args, ins):
    """the error a failing vStream returns: kind 0 -> nil (the stream then reports io.EOF), 1 custom, 2 io.ErrUnexpectedEOF"""
    k = args[0]
    ex.fail_kind = k
    return None


def _stream_err_id(ex):
    """id of the error the failing stream returns: 1 io.EOF, 2 io.ErrUnexpectedEOF, 3 custom"""
    k = getattr(ex, 'fail_kind', 0)
    if isinstance(k, int):
        return {0: 1, 1: 3, 2: 2}.get(k, 1)
    return int_ite(int_cmp('==', k, 1, 64, True), 3, int_ite(int_cmp('==', k, 2, 64, True), 2, 1, 64), 64)


def wf_guard(ex, fr, st, args, ins):
    which, src = args
    if isinstance(src, Iface) and src.typ.endswith('.vStream'):
        ex.last_stream = (src.val, src.typ[1:])
    return ex.call_named(fr, st, DP + '.fastRun', [which, src], ins)


def wf_goroutines(ex, fr, st, args, ins):
    return 0


def wf_goroutine_leak(ex, fr, st, args, ins):
    """a worker can only block in the receive on its jobs channel: it is released iff that channel gets closed"""
    c = _conc(ex)
    if c['parked'] == 0:
        return False
    return any(not q['closed'] for q in c['chans'].values())


_fast_extra = {
    '#vRoundPosOK': wf_round_pos_ok, '#vFailErr': wf_fail_err, '#vGuard': wf_guard, '#vGoroutines': wf_goroutines,
    '#vGoroutineLeak': wf_goroutine_leak,
}
_old_fast = REGISTRY['fast']


def _fast2():
    d = _old_fast()
    d.update(_fast_extra)
    return d


REGISTRY['fast'] = _fast2


# ---------------------------------------------------------------------------------------------
# summaries: a pure library function replaced by an uninterpreted function of its arguments (slices by content)

def _arg_key(ex, st, a):
    if isinstance(a, Slice):
        cells = ex.slice_cells(st, a)
        return ('slice',) + tuple(_arg_key(ex, st, c) for c in cells)
    if isinstance(a, bool) or isinstance(a, int) or isinstance(a, float) or isinstance(a, str):
        return a
    if isinstance(a, GSum):
        return ('g',) + a.key()
    if isinstance(a, z3.ExprRef):
        pin(a)
        return ('z', a.get_id())
    if isinstance(a, FReal):
        pin(a.t)
        return ('r', a.t.get_id())
    if isinstance(a, FInt):
        return ('fi', _arg_key(ex, st, a.v))
    raise Unsupported('summary argument %r' % (a,))


def summary(name, nret, kind='float'):
    def h(ex, fr, st, args, ins):
        key = (name,) + tuple(_arg_key(ex, st, a) for a in args)
        tab = ex.__dict__.setdefault('sum_table', {})
        v = tab.get(key)
        if v is None:
            k = len(tab)
            v = tuple(FReal(z3.Real('sum!%s!%d!%d' % (name.rsplit('.', 1)[-1], k, i))) for i in range(nret))
            tab[key] = v
            ex.__dict__.setdefault('sum_keep', []).append(args)
        ex.log.append((st.pc, name, key[1:]))
        return v[0] if nret == 1 else v
    return h


@stubset('lib_summaries')
def _libsum():
    from intr import RP
    d = {}
    two = ['MonoBitFrequencyTestBytes', 'MonoBitFrequencyTest', 'FrequencyWithinBlockProto', 'PokerTestBytes', 'PokerProto',
           'RunsTest', 'RunsDistributionTest', 'LongestRunOfOnesInABlockProto', 'BinaryDerivativeProto', 'AutocorrelationProto',
           'MatrixRankProto', 'CumulativeTest', 'ApproximateEntropyProto', 'LinearComplexityProto', 'MaurerUniversalTest',
           'DiscreteFourierTransformTest']
    for n in two:
        d[RP + '.' + n] = summary(RP + '.' + n, 2)
    d[RP + '.OverlappingTemplateMatchingProto'] = summary(RP + '.OverlappingTemplateMatchingProto', 4)
    return d


def _runner_summary(name):
    def h(ex, fr, st, args, ins):
        key = (name, _arg_key(ex, st, args[0]))
        tab = ex.__dict__.setdefault('runner_table', {})
        v = tab.get(key)
        if v is None:
            k = len(tab)
            short = name.rsplit('.', 1)[-1]
            val = [short, FReal(z3.Real('run!%s!%d!P' % (short, k))), FReal(z3.Real('run!%s!%d!Q' % (short, k))),
                   FReal(z3.Real('run!%s!%d!P2' % (short, k))), FReal(z3.Real('run!%s!%d!Q2' % (short, k))), z3.Bool('run!%s!%d!Pass' % (short, k))]
            oid = ex.new_obj(st, val)
            ex.alloc_epoch[oid] = ex.nobj
            v = Ptr(oid, ())
            tab[key] = v
        ex.log.append((st.pc, name, key[1]))
        return v
    return h


RUNNERS = ['MonoBitFrequency', 'FrequencyWithinBlock', 'Poker', 'OverlappingTemplateMatching', 'Runs', 'RunsDistribution',
           'LongestRunOfOnesInABlock', 'BinaryDerivative', 'Autocorrelation', 'MatrixRank', 'Cumulative', 'ApproximateEntropy',
           'LinearComplexity', 'MaurerUniversal', 'DiscreteFourierTransform']


@stubset('runner_summaries')
def _runsum():
    from intr import RP
    return {RP + '.' + n: _runner_summary(RP + '.' + n) for n in RUNNERS}


def tmpfile(ex, fr, st, args, ins):
    ex.tmpfile_data = args[0]
    return 'verif-tmp-file'


def readfile(ex, fr, st, args, ins):
    d = getattr(ex, 'tmpfile_data', None)
    if d is None or args[0] != 'verif-tmp-file':
        raise Unsupported('ioutil.ReadFile of %r' % (args[0],))
    cells = list(ex.slice_cells(st, d))
    oid = ex.new_obj(st, cells)
    ex.alloc_epoch[oid] = ex.nobj
    return (Slice(oid, (), 0, len(cells), len(cells)), None)


@stubset('files')
def _files():
    return {'#vTempFile': tmpfile, 'io/ioutil.ReadFile': readfile, 'os.ReadFile': readfile}


# ---------------------------------------------------------------------------------------------
# FFT summary (C05): Transform overwrites x with a vector that is a function of the input vector (and the length)

def fft_transform_summary(ex, fr, st, args, ins):
    f, x = args
    cells = ex.slice_cells(st, x)
    N = f[0]
    if x.len != N:
        ex.oblige('panic', st, True, 'panic: Input dimension mismatches: FFT is not initialized, or called with wrong input.', ins.get('pos', ''))
        raise __import__('core').PathDead()
    key = (N,) + tuple((_arg_key(ex, st, c.re), _arg_key(ex, st, c.im)) for c in cells)
    tab = ex.__dict__.setdefault('fft_table', {})
    out = tab.get(key)
    if out is None:
        k = len(tab)
        out = [Cx(FReal(z3.Real('fft!%d!re!%d' % (k, i))), FReal(z3.Real('fft!%d!im!%d' % (k, i)))) for i in range(N)]
        tab[key] = out
        ex.__dict__.setdefault('fft_keep', []).append(cells)
    for i in range(N):
        ex.store(st, Ptr(x.obj, x.path + (x.off + i,)), out[i])
    return x


@stubset('fft_summary')
def _fftsum():
    return {'(github.com/Trisia/randomness/fft.FFT).Transform': fft_transform_summary}


def path_base(ex, fr, st, args, ins):
    import posixpath
    return posixpath.basename(args[0]) if args[0] else '.'


@stubset('tools')
def _tools():
    d = dict(_fast2())
    d.update(_files())
    d.update(_libsum())
    d.update({'path.Base': path_base})
    nop = lambda ex, fr, st, args, ins: None
    for n in ('flag.BoolVar', 'flag.StringVar', 'flag.IntVar', 'flag.Parse', 'flag.PrintDefaults', 'log.SetPrefix', 'fmt.Fprintf', 'fmt.Fprint',
              'fmt.Fprintln', 'flag.Usage'):
        d[n] = nop
    return d
