"""Per-harness environment stubs (selected by name in the job options)."""
import z3
from vals import *
from ops import *
from mem import *

REGISTRY = {}


def stubset(name):
    def deco(f):
        REGISTRY[name] = f
        return f
    return deco


def select(names):
    extra = {}
    for n in names:
        extra.update(REGISTRY[n]())
    return extra


def prepare(ex, st, opts):
    pass


def post_obligations(ex, opts):
    return []


# ---------------------------------------------------------------------------------------------
# workflow stubs (detect package): scripted round results, instrumented byte source, io.ReadFull by contract

DP = 'github.com/Trisia/randomness/detect'


class StreamBlock(object):
    """content of a byte buffer: bytes [start, start+n) of the harness stream (n == len of the buffer)"""
    __slots__ = ('start', 'n', 'fresh')

    def __init__(self, start, n, fresh=True):
        self.start = start
        self.n = n
        self.fresh = fresh


class Script(object):
    pass


def _pc_guard(st):
    g = True
    for x in st.pc:
        g = b_and(g, x)
    return g


def wf_script_rounds(ex, fr, st, args, ins):
    s, items = args
    sc = Script()
    sc.s, sc.items = s, items
    base = len(ex.inputs)
    sc.passv = [[z3.Bool('pass_%d_%d' % (k, j)) for j in range(items)] for k in range(s)]
    sc.qv = [[z3.Real('q_%d_%d' % (k, j)) for j in range(items)] for k in range(s)]
    for k in range(s):
        for j in range(items):
            ex.inputs.append(('bool', sc.passv[k][j]))
    cons = []
    for k in range(s):
        for j in range(items):
            ex.inputs.append(('float', sc.qv[k][j]))
            cons += [sc.qv[k][j] >= 0, sc.qv[k][j] <= 1]
    st.pc = st.pc + tuple(cons)
    sc.calls = []      # (guard, name, buflen, bufpos)
    ex.script = sc
    return None


def wf_pass(ex, fr, st, args, ins):
    return ex.script.passv[args[0]][args[1]]


def wf_q(ex, fr, st, args, ins):
    return FReal(ex.script.qv[args[0]][args[1]])


def wf_round_calls(ex, fr, st, args, ins):
    r = GSum(64, 0, {})
    n = 0
    for (g, name, bl, bp) in ex.script.calls:
        if g is True:
            n += 1
        else:
            r = gs_from(gs_add(r, gs_indicator(g, 64, 1)), 64)
    return gs_add(r, GSum(64, n, {}))


def _call_field(idx):
    def h(ex, fr, st, args, ins):
        k = args[0]
        if k >= len(ex.script.calls):
            return '' if idx == 1 else -1
        return ex.script.calls[k][idx]
    return h


def _mk_round(name, n):
    def h(ex, fr, st, args, ins):
        data = args[0]
        sc = ex.script
        k = len(sc.calls)
        blk = st.heap.get(data.obj) if data.obj is not None else None
        if isinstance(blk, StreamBlock) and data.off == 0:
            pos = blk.start
        else:
            pos = -1
        sc.calls.append((_pc_guard(st), name, data.len, pos))
        cells = []
        for j in range(n):
            if k < sc.s and j < sc.items:
                val = ['', 0.0, FReal(sc.qv[k][j]), 0.0, 0.0, sc.passv[k][j]]
            else:
                val = ['', 0.0, 0.0, 0.0, 0.0, False]
            oid = ex.new_obj(st, val)
            ex.alloc_epoch[oid] = ex.nobj
            cells.append(Ptr(oid, ()))
        oid = ex.new_obj(st, cells)
        ex.alloc_epoch[oid] = ex.nobj
        return Slice(oid, (), 0, n, n)
    return h


def wf_readfull(ex, fr, st, args, ins):
    """io.ReadFull by contract on a vStream without failure/chunking: fills the whole buffer with the next len(buf)
    stream bytes and returns (len(buf), nil)"""
    r, buf = args
    if not (isinstance(r, Iface) and r.typ.endswith('.vStream')):
        raise Unsupported('io.ReadFull on %r' % (r,))
    sp = r.val
    fields = ex.load(st, sp, r.typ[1:])
    pos, reads, failAt, failErr, maxChunk = fields
    n = buf.len
    if not (isinstance(failAt, int) and failAt < 0):
        h = ex.intr.get('#readfull_faulty')
        if h is None:
            raise Unsupported('ReadFull on a failing stream')
        return h(ex, fr, st, args, ins)
    if not (buf.off == 0 and isinstance(n, int)):
        raise Unsupported('ReadFull into a sub-slice')
    st.heap[buf.obj] = StreamBlock(pos, n)
    ex.store(st, Ptr(sp.obj, sp.path + (0,)), int_binop('+', pos, n, 64, True))
    ex.store(st, Ptr(sp.obj, sp.path + (1,)), int_binop('+', reads, 1, 64, True))
    ex.log.append((st.pc, 'io.ReadFull', (pos, n)))
    return (n, None)


def wf_err_item(ex, fr, st, args, ins):
    err = args[0]
    names = ex.item_names(st)

    def one(e):
        if e is None:
            return -1
        if isinstance(e, SymChoice):
            res = None
            for g, a in reversed(e.alts):
                v = one(a)
                res = v if res is None else int_ite(g, v, res, 64)
            return res
        if isinstance(e, Iface):
            v = e.val
            if isinstance(v, SymChoice):
                idx = one(SymChoice([(g, Iface(e.typ, a)) for g, a in v.alts]))
            elif isinstance(v, Opaque) and v.kind == 'error' and v.data[0] == 'fmt.Errorf' and v.data[2] and isinstance(v.data[2][0], str):
                idx = names.index(v.data[2][0]) if v.data[2][0] in names else -1
            else:
                idx = -1
            if e.isnil is False:
                return idx
            return int_ite(e.isnil, -1, idx, 64)
        return -1
    return one(err)


@stubset('workflow')
def _workflow():
    return {
        '#vScriptRounds': wf_script_rounds, '#vPass': wf_pass, '#vQ': wf_q, '#vRoundCalls': wf_round_calls,
        '#vRoundName': _call_field(1), '#vRoundBufLen': _call_field(2), '#vRoundBufPos': _call_field(3),
        '#vErrItem': wf_err_item,
        DP + '.Round15': _mk_round('Round15', 15), DP + '.Round12': _mk_round('Round12', 12),
        'io.ReadFull': wf_readfull,
    }


def tq_summary(ex, fr, st, args, ins):
    """detect.ThresholdQ summarised (its definition is C12): the result is a function of the list of Q-values"""
    cells = ex.slice_cells(st, args[0])
    key = tuple((c.t.get_id() if isinstance(c, FReal) else ('c', c)) for c in cells)
    tab = ex.__dict__.setdefault('tq_table', {})
    v = tab.get(key)
    if v is None:
        v = z3.Real('tq!%d' % len(tab))
        tab[key] = v
        ex.__dict__.setdefault('tq_keep', []).append(cells)
    ex.log.append((st.pc, 'ThresholdQ', key))
    return FReal(v)


@stubset('tq_summary')
def _tq():
    return {DP + '.ThresholdQ': tq_summary, DP + '.specThresholdQ': tq_summary}
