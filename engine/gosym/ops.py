"""Arithmetic on the value domain (Go semantics)."""
import math
import z3
from fractions import Fraction
from vals import *
import vals


class Unsupported(Exception):
    pass


# ------------------------------------------------------------------ ints

_bv_range = {}     # ast id -> (lo, hi) signed value range of a 64-bit bit-vector term (sound over-approximation)
_cmp_info = {}     # ast id of a Bool -> (op, a, b) the integer comparison it stands for
_keep = []
LIM = 1 << 62


def rng_of(v, w=64, signed=True):
    """(lo, hi) of an integer value if cheaply known, else None"""
    if isinstance(v, bool):
        return None
    if isinstance(v, int):
        return (v, v)
    if isinstance(v, GSum):
        return v.range(signed) if v.w == w else None
    if isinstance(v, LazySel):
        rs = [rng_of(c, w, signed) for c in v.cells]
        if any(r is None for r in rs):
            return None
        return (min(r[0] for r in rs), max(r[1] for r in rs))
    if isinstance(v, z3.ExprRef):
        return _bv_range.get(v.get_id())
    return None


def set_rng(t, lo, hi):
    if isinstance(t, z3.ExprRef) and -LIM < lo <= hi < LIM:
        _bv_range[t.get_id()] = (lo, hi)
        _keep.append(t)
    return t


def tobv(v, w):
    if isinstance(v, bool):
        raise Unsupported('bool as bv')
    if isinstance(v, int):
        return z3.BitVecVal(v, w)
    if isinstance(v, GSum):
        if v.w != w:
            v = gs_from(v, w)
        return v.bv()
    if isinstance(v, LazySel):
        return tobv(force(v), w)
    if v.size() != w:
        return z3.Extract(w - 1, 0, v) if v.size() > w else z3.SignExt(w - v.size(), v)
    return v


def force(v):
    """LazySel -> plain value (ite chain)"""
    if not isinstance(v, LazySel):
        return v
    if v._forced is None:
        idx = v.idx
        acc = None
        n = len(v.cells)
        # build ite chain from the last cell backwards
        for j in range(n - 1, -1, -1):
            c = v.cells[j]
            if acc is None:
                acc = c
            else:
                g = int_cmp('==', idx, j, 64, True)
                acc = merge_val(g, c, acc, v.kind, v.w, v.signed)
        v._forced = acc
    return v._forced


def merge_val(g, a, b, kind, w=64, signed=True):
    """ite(g,a,b) for scalar values of the given kind"""
    if isinstance(g, bool):
        return a if g else b
    if a is b:
        return a
    if kind == 'int':
        return int_ite(g, a, b, w, signed)
    if kind == 'bool':
        return b_ite(g, a, b)
    if kind == 'float':
        return f_ite(g, a, b)
    raise Unsupported('merge kind ' + kind)


def int_ite(g, a, b, w, signed=True):
    if isinstance(g, bool):
        return a if g else b
    if a is b:
        return a
    a = force(a)
    b = force(b)
    if isinstance(a, int) and isinstance(b, int) and a == b:
        return a
    ga, gb = gs_from(a, w), gs_from(b, w)
    if ga is not None and gb is not None:
        d = gs_add(ga, gb, -1)
        if isinstance(d, int):
            if d == 0:
                return a
            if canon(d, w, True) < 0:
                return gs_add(ga, gs_indicator(b_not(g), w, -d))
            return gs_add(gb, gs_indicator(g, w, d))
        if len(d.terms) <= 4:
            # ite(g, C + A', C + B') = C + b0 + [g](a0-b0) + sum a_k [g & h_k] + sum b_k [!g & h'_k]
            # where C are the common terms; keeps every increment a positive conjunction guard
            ng = b_not(g)
            r = {}
            for k, (h, c) in gb.terms.items():
                if k not in d.terms:
                    r[k] = (h, c)
            res = GSum(w, gb.const, r)
            dc = (ga.const - gb.const) & ((1 << w) - 1)
            if dc:
                res = gs_from(gs_add(res, gs_indicator(g, w, dc)), w)
            for k in d.terms:
                ta_ = ga.terms.get(k)
                tb_ = gb.terms.get(k)
                if ta_ is not None:
                    res = gs_from(gs_add(res, gs_indicator(z3.And(g, ta_[0]), w, ta_[1])), w)
                if tb_ is not None:
                    res = gs_from(gs_add(res, gs_indicator(z3.And(ng, tb_[0]), w, tb_[1])), w)
            return res.const_or_self()
    ta, tb = tobv(a, w), tobv(b, w)
    if ta.eq(tb):
        return a
    res = z3.If(g, ta, tb)
    if w == 64 and signed:
        ra, rb = rng_of(a), rng_of(b)
        info = _cmp_info.get(g.get_id())
        neg = False
        if info is None and z3.is_not(g):
            info = _cmp_info.get(g.arg(0).get_id())
            neg = True
        if info is not None and ra is not None and rb is not None:
            # refine by the guard when it compares one of the branches' values with a constant:
            # ite(x > c, A, x): in the else branch x <= c ; etc.
            op, x, c = info
            if isinstance(c, int):
                def refine(val, r, holds):
                    # the branch where comparison (x op c) has truth value `holds`, value `val` is x itself
                    if val is not x and not (isinstance(val, z3.ExprRef) and isinstance(x, z3.ExprRef) and val.eq(x)) and not (isinstance(val, GSum) and isinstance(x, GSum) and val.key() == x.key()):
                        return r
                    lo, hi = r
                    o = op
                    if not holds:
                        o = {'<': '>=', '<=': '>', '>': '<=', '>=': '<', '==': '!=', '!=': '=='}[o]
                    if o == '<':
                        hi = min(hi, c - 1)
                    elif o == '<=':
                        hi = min(hi, c)
                    elif o == '>':
                        lo = max(lo, c + 1)
                    elif o == '>=':
                        lo = max(lo, c)
                    elif o == '==':
                        lo, hi = max(lo, c), min(hi, c)
                    return (lo, hi) if lo <= hi else r
                ra = refine(a, ra, not neg)
                rb = refine(b, rb, neg)
        if ra is not None and rb is not None:
            set_rng(res, min(ra[0], rb[0]), max(ra[1], rb[1]))
    return res


def bv_simpl(t):
    return t


def int_cmp(op, a, b, w, signed):
    a = force(a)
    b = force(b)
    if isinstance(a, int) and isinstance(b, int):
        return {'==': a == b, '!=': a != b, '<': a < b, '<=': a <= b, '>': a > b, '>=': a >= b}[op]
    if w == 64 and signed and (isinstance(a, z3.ExprRef) or isinstance(b, z3.ExprRef)):
        ra, rb = rng_of(a), rng_of(b)
        if ra is not None and rb is not None:
            if op == '<' and ra[1] < rb[0] or op == '<=' and ra[1] <= rb[0] or op == '>' and ra[0] > rb[1] or op == '>=' and ra[0] >= rb[1] \
                    or op == '!=' and (ra[1] < rb[0] or ra[0] > rb[1]):
                return True
            if op == '<' and ra[0] >= rb[1] or op == '<=' and ra[0] > rb[1] or op == '>' and ra[1] <= rb[0] or op == '>=' and ra[1] < rb[0] \
                    or op == '==' and (ra[1] < rb[0] or ra[0] > rb[1]):
                return False
    r = None
    if w == 64 and signed:
        if isinstance(a, z3.ExprRef) and isinstance(b, int) and not isinstance(b, bool):
            r = _cmp_dist(op, a, b, 8)
        elif isinstance(b, z3.ExprRef) and isinstance(a, int) and not isinstance(a, bool):
            r = _cmp_dist({'<': '>', '<=': '>=', '>': '<', '>=': '<=', '==': '==', '!=': '!='}[op], b, a, 8)
    if r is None:
        r = _int_cmp(op, a, b, w, signed)
    if isinstance(r, z3.ExprRef) and w == 64 and signed:
        if isinstance(b, int):
            _cmp_info[r.get_id()] = (op, a, b)
            _keep.append(r)
        elif isinstance(a, int):
            _cmp_info[r.get_id()] = ({'<': '>', '<=': '>=', '>': '<', '>=': '<=', '==': '==', '!=': '!='}[op], b, a)
            _keep.append(r)
    return r


_PY_CMP = {'==': lambda x, y: x == y, '!=': lambda x, y: x != y, '<': lambda x, y: x < y, '<=': lambda x, y: x <= y,
           '>': lambda x, y: x > y, '>=': lambda x, y: x >= y}


def _decide_rng(op, r, c):
    lo, hi = r
    if op == '==':
        return False if (c < lo or c > hi) else (True if lo == hi == c else None)
    if op == '!=':
        return True if (c < lo or c > hi) else (False if lo == hi == c else None)
    if op == '<':
        return True if hi < c else (False if lo >= c else None)
    if op == '<=':
        return True if hi <= c else (False if lo > c else None)
    if op == '>':
        return True if lo > c else (False if hi <= c else None)
    if op == '>=':
        return True if lo >= c else (False if hi < c else None)
    return None


def _cmp_dist(op, t, c, depth):
    """signed comparison of the 64-bit term t with the constant c, pushed through ite and through + constant (only where the
    known value range excludes wrap-around). Returns bool | z3 Bool, or None when nothing is gained. A run-length counter
    `cnt = same ? cnt+1 : 1` compared with L thereby becomes a formula over the last L guards instead of the whole prefix."""
    if z3.is_bv_value(t):
        return _PY_CMP[op](t.as_signed_long(), c)
    r = _bv_range.get(t.get_id())
    if r is not None:
        d = _decide_rng(op, r, c)
        if d is not None:
            return d
    if depth <= 0:
        return None
    if z3.is_app_of(t, z3.Z3_OP_ITE):
        g, A, B = t.arg(0), t.arg(1), t.arg(2)
        ra = _cmp_dist(op, A, c, depth - 1)
        rb = _cmp_dist(op, B, c, depth - 1)
        if ra is None and rb is None:
            return None
        cv = z3.BitVecVal(c, 64)
        plain = {'==': lambda x: x == cv, '!=': lambda x: x != cv, '<': lambda x: x < cv, '<=': lambda x: x <= cv,
                 '>': lambda x: x > cv, '>=': lambda x: x >= cv}[op]
        if ra is None:
            ra = plain(A)
        if rb is None:
            rb = plain(B)
        return b_ite(g, ra, rb)
    if z3.is_app_of(t, z3.Z3_OP_BADD) and t.num_args() == 2:
        x, k = t.arg(0), t.arg(1)
        if z3.is_bv_value(x):
            x, k = k, x
        if z3.is_bv_value(k):
            rx = _bv_range.get(x.get_id())
            kk = k.as_signed_long()
            if rx is not None and -LIM < rx[0] + kk and rx[1] + kk < LIM and -LIM < c - kk < LIM:
                return _cmp_dist(op, x, c - kk, depth - 1)
    return None


def _int_cmp(op, a, b, w, signed):
    if op == '!=':
        return b_not(int_cmp('==', a, b, w, signed))
    if op == '>':
        return int_cmp('<', b, a, w, signed)
    if op == '>=':
        return int_cmp('<=', b, a, w, signed)
    ga, gb = gs_from(a, w), gs_from(b, w)
    if op == '==':
        if ga is not None and gb is not None:
            d = _gs_add_raw(ga, gb)
            if isinstance(d, int):
                return canon(d, w, False) == 0
            # binary shaped value compared with a constant: conjunction of literals
            if isinstance(b, int) or isinstance(a, int):
                val, cst = (ga, b) if isinstance(b, int) else (gb, a)
                sh = val.binary_shape()
                if sh is not None:
                    cu = cst & ((1 << w) - 1)
                    lits = []
                    for k in sorted(sh):
                        lits.append(sh[k] if (cu >> k) & 1 else b_not(sh[k]))
                        cu &= ~(1 << k)
                    if cu != 0:
                        return False
                    r = lits[0] if len(lits) == 1 else z3.And(*lits)
                    return r
            if len(d.terms) == 1:
                # two-valued difference: const or const + c
                (g1, c1), = d.terms.values()
                v0 = canon(d.const, w, False) == 0
                v1 = canon(d.const + c1, w, False) == 0
                return b_ite(g1, v1, v0)
            rng = d.range(signed)
            if rng is not None and (rng[0] > 0 or rng[1] < 0):
                return False
            t = d.bv() == z3.BitVecVal(0, w)
            vals._guard_info[t.get_id()] = ('eqz', d)
            vals._guard_keep[t.get_id()] = t
            return t
        return tobv(a, w) == tobv(b, w)
    # ordering
    if ga is not None and gb is not None:
        # a two-valued operand against a constant
        for sym, cst, flip in ((ga, b, False), (gb, a, True)):
            if isinstance(cst, int) and len(sym.terms) == 1 and sym.range(signed) is not None:
                (g1, c1), = sym.terms.values()
                x0 = canon(sym.const, w, signed)
                x1 = canon(sym.const + c1, w, signed)
                if not flip:
                    f = (lambda x: x < cst) if op == '<' else (lambda x: x <= cst)
                else:
                    f = (lambda x: cst < x) if op == '<' else (lambda x: cst <= x)
                return b_ite(g1, f(x1), f(x0))
        ra, rb = ga.range(signed), gb.range(signed)
        if ra is not None and rb is not None:
            if op == '<':
                if ra[1] < rb[0]:
                    return True
                if ra[0] >= rb[1]:
                    return False
            else:
                if ra[1] <= rb[0]:
                    return True
                if ra[0] > rb[1]:
                    return False
    ta, tb = tobv(a, w), tobv(b, w)
    if op == '<':
        return (ta < tb) if signed else z3.ULT(ta, tb)
    return (ta <= tb) if signed else z3.ULE(ta, tb)


def _gs_add_raw(ga, gb):
    return gs_add(ga, gb, -1)


def int_binop(op, a, b, w, signed, ex=None, pos=None):
    if isinstance(a, LazySel) and not isinstance(b, LazySel) and op in ('+', '-') and a._forced is None:
        return LazySel(a.idx, [int_binop(op, c, b, w, signed) for c in a.cells], a.kind, a.w, a.signed)
    a = force(a)
    b = force(b)
    ca, cb = isinstance(a, int), isinstance(b, int)
    mask = (1 << w) - 1
    if ca and cb:
        if op == '+':
            r = a + b
        elif op == '-':
            r = a - b
        elif op == '*':
            r = a * b
        elif op == '/':
            if b == 0:
                raise ZeroDivisionError
            r = abs(a) // abs(b)
            if (a < 0) != (b < 0):
                r = -r
        elif op == '%':
            if b == 0:
                raise ZeroDivisionError
            r = abs(a) % abs(b)
            if a < 0:
                r = -r
        elif op == '&':
            r = a & b
        elif op == '|':
            r = a | b
        elif op == '^':
            r = a ^ b
        elif op == '&^':
            r = a & ~b
        elif op == '<<':
            sh = b & ((1 << 64) - 1) if b < 0 else b
            r = 0 if sh >= w else a << sh
        elif op == '>>':
            sh = b
            if sh >= w:
                r = -1 if (signed and a < 0) else 0
            else:
                r = a >> sh
        else:
            raise Unsupported('int op ' + op)
        return canon(r, w, signed)
    # identities with a constant operand
    if ca or cb:
        cst, other = (a, b) if ca else (b, a)
        if cst == 0:
            if op in ('&', '*'):
                return 0
            if op in ('|', '^', '+') or (op in ('-', '<<', '>>', '&^') and cb):
                return other
        if op == '*' and cst == 1:
            return other
    ga, gb = gs_from(a, w), gs_from(b, w)
    if op == '+' and ga is not None and gb is not None:
        return gs_add(ga, gb)
    if op == '-' and ga is not None and gb is not None:
        return gs_add(ga, gb, -1)
    if op == '*':
        if ca and gb is not None:
            return gs_scale(gb, a)
        if cb and ga is not None:
            return gs_scale(ga, b)
        if ga is not None and gb is not None and len(ga.terms) <= 3 and len(gb.terms) <= 3:
            return gs_mul(ga, gb)
        return tobv(a, w) * tobv(b, w)
    if op == '<<' and cb:
        if b >= w:
            return 0
        if ga is not None:
            return gs_scale(ga, 1 << b)
        return tobv(a, w) << b
    if op == '>>' and cb:
        if ga is not None:
            sh = ga.binary_shape()
            if sh is not None and (not signed or (w - 1) not in sh):
                if b >= w:
                    return 0
                r = GSum(w, 0, {})
                for k, g in sh.items():
                    if k >= b:
                        r = gs_from(gs_add(r, gs_indicator(g, w, 1 << (k - b))), w)
                return r.const_or_self()
        if b >= w:
            b = w - 1 if signed else w
            if not signed:
                return 0
        ta = tobv(a, w)
        return (ta >> b) if signed else z3.LShR(ta, b)
    if op == '&' and (ca or cb):
        val, cst = (gb, a) if ca else (ga, b)
        cst &= mask
        if val is not None and cst & (cst + 1) == 0 and cst != 0:
            # mask 2^m-1: value mod 2^m; reduce coefficients mod 2^m, exact when the reduced sum cannot carry
            m_ = cst + 1
            terms = {}
            tot = val.const % m_
            for k, (g, c) in val.terms.items():
                cc = c % m_
                if cc:
                    terms[k] = (g, cc)
                    tot += cc
            if tot < m_:
                return GSum(w, val.const % m_, terms).const_or_self()
        if val is not None:
            sh = val.binary_shape()
            if sh is not None:
                r = GSum(w, 0, {})
                for k, g in sh.items():
                    if (cst >> k) & 1:
                        r = gs_from(gs_add(r, gs_indicator(g, w, 1 << k)), w)
                return r.const_or_self()
    ta, tb = tobv(a, w), tobv(b, w)
    if op in ('+', '-') and w == 64 and signed:
        ra, rb = rng_of(a), rng_of(b)
        res = (ta + tb) if op == '+' else (ta - tb)
        if ra is not None and rb is not None:
            if op == '+':
                set_rng(res, ra[0] + rb[0], ra[1] + rb[1])
            else:
                set_rng(res, ra[0] - rb[1], ra[1] - rb[0])
        return res
    if op == '+':
        return ta + tb
    if op == '-':
        return ta - tb
    if op == '&':
        return ta & tb
    if op == '|':
        return ta | tb
    if op == '^':
        return ta ^ tb
    if op == '&^':
        return ta & ~tb
    if op == '/':
        return (ta / tb) if signed else z3.UDiv(ta, tb)
    if op == '%':
        if cb and signed and b > 0 and (b & (b - 1)) == 0 and ga is not None:
            rng = ga.range(True)
            if rng is not None and rng[0] >= 0:
                # non-negative value modulo a power of two: unsigned remainder = low bits
                return z3.ZeroExt(w - (b.bit_length() - 1), z3.Extract(b.bit_length() - 2, 0, ta)) if b > 1 else 0
        return z3.SRem(ta, tb) if signed else z3.URem(ta, tb)
    if op == '<<':
        # symbolic shift count: Go semantics (count >= w gives 0)
        return z3.If(z3.UGE(tb, w), z3.BitVecVal(0, w), ta << tb)
    if op == '>>':
        if signed:
            return z3.If(z3.UGE(tb, w), ta >> (w - 1), ta >> tb)
        return z3.If(z3.UGE(tb, w), z3.BitVecVal(0, w), z3.LShR(ta, tb))
    raise Unsupported('int op ' + op)


def int_convert(v, w1, s1, w2, s2):
    v = force(v)
    if isinstance(v, int):
        return canon(v, w2, s2)
    if w1 == w2:
        if isinstance(v, GSum):
            return v
        return v
    if isinstance(v, GSum):
        if w2 < w1:
            terms = {}
            m2 = (1 << w2) - 1
            for k, (g, c) in v.terms.items():
                if c & m2:
                    terms[k] = (g, c & m2)
            return GSum(w2, v.const & m2, terms).const_or_self()
        rng = v.range(s1)
        if rng is not None and (rng[0] >= 0 or s1):
            m2 = (1 << w2) - 1
            terms = {k: (g, canon(c, w1, s1) & m2) for k, (g, c) in v.terms.items()}
            return GSum(w2, canon(v.const, w1, s1) & m2, terms).const_or_self()
    t = tobv(v, w1)
    if w2 < w1:
        return z3.Extract(w2 - 1, 0, t)
    return z3.SignExt(w2 - w1, t) if s1 else z3.ZeroExt(w2 - w1, t)


# ------------------------------------------------------------------ floats

class FloatCtx(object):
    """cut registry, sqrt variables and UFs: one per executor"""

    def __init__(self):
        self.cuts = {}      # key -> (realvar, intvalue)
        self.cutvars = {}   # realvar id -> (realvar, intvalue)
        self.sqrts = {}     # ast id of arg -> (r, arg)
        self.side = []      # side constraints (r>=0, r*r==x)
        self.ufs = {}
        self.divs = []      # (divisor real term) encountered
        self.real_assumes = []  # real-level mirror of harness assumptions on integer counts
        self.n = 0

    def uf(self, name, arity):
        f = self.ufs.get(name)
        if f is None:
            f = z3.Function(name, *([z3.RealSort()] * (arity + 1)))
            self.ufs[name] = f
        return f

    def cut(self, iv):
        """real term for an integer value: const + scale * cutvar(primitive linear form)"""
        if isinstance(iv, GSum) and any(z3.is_not(g) for g, c in iv.terms.values()):
            # [not g] = 1 - [g]: express the value over the positive guards, so that counts of a sequence and of
            # its complement share one variable
            w = iv.w
            mask = (1 << w) - 1
            const = iv.const
            terms = {}
            for k, (g, c) in iv.terms.items():
                if z3.is_not(g):
                    g2 = g.arg(0)
                    const = (const + c) & mask
                    c = (-c) & mask
                    k = g2.get_id()
                    g = g2
                if k in terms:
                    nc = (terms[k][1] + c) & mask
                    if nc:
                        terms[k] = (g, nc)
                    else:
                        del terms[k]
                else:
                    terms[k] = (g, c)
            iv2 = GSum(w, const, terms)
            if not terms:
                return z3.RealVal(canon(const, w, True))
            if iv2.range(True) is not None and iv.range(True) is not None:
                iv = iv2
        if isinstance(iv, GSum):
            w = iv.w
            c0 = canon(iv.const, w, True)
            coeffs = [canon(c, w, True) for g, c in iv.terms.values()]
            from math import gcd
            gg = 0
            for c in coeffs:
                gg = gcd(gg, abs(c))
            first = canon(iv.terms[min(iv.terms)][1], w, True)
            if first < 0:
                gg = -gg
            mask = (1 << w) - 1
            prim = GSum(w, 0, {k: (g, (canon(c, w, True) // gg) & mask) for k, (g, c) in iv.terms.items()})
            if prim.range(True) is None or iv.range(True) is None:
                prim, gg, c0 = iv, 1, 0
            key = prim.key()
            c = self.cuts.get(key)
            if c is None:
                self.n += 1
                rv = z3.Real('cut!%d' % self.n)
                c = (rv, prim)
                self.cuts[key] = c
                self.cutvars[rv.get_id()] = c
            t = c[0]
            if gg != 1:
                t = z3.RealVal(gg) * t
            if c0 != 0:
                t = t + z3.RealVal(c0)
            return t
        key = ('bv', iv.get_id())
        c = self.cuts.get(key)
        if c is None:
            self.n += 1
            rv = z3.Real('cut!%d' % self.n)
            c = (rv, iv)
            self.cuts[key] = c
            self.cutvars[rv.get_id()] = c
        return c[0]

    def sqrt(self, x):
        k = x.get_id()
        s = self.sqrts.get(k)
        if s is None:
            self.n += 1
            r = z3.Real('sqrt!%d' % self.n)
            s = (r, x)
            self.sqrts[k] = s
            self.side.append(r >= 0)
            self.side.append(r * r == x)
        return s[0]


def is_intfloat(f):
    return isinstance(f, float) and f == math.floor(f) and abs(f) < 2 ** 53


def to_real(fc, v):
    if isinstance(v, LazySel):
        v = force(v)
    if isinstance(v, float):
        if math.isinf(v) or math.isnan(v):
            raise Unsupported('inf/nan in real domain')
        return realval(v)
    if isinstance(v, int):
        return z3.RealVal(v)
    if isinstance(v, FInt):
        iv = v.v
        if isinstance(iv, int):
            return z3.RealVal(iv)
        return fc.cut(iv)
    if isinstance(v, FReal):
        return v.t
    raise Unsupported('to_real %r' % (v,))


def f_ite(g, a, b):
    if isinstance(g, bool):
        return a if g else b
    if a is b:
        return a
    a = force(a)
    b = force(b)
    if isinstance(a, FFP) or isinstance(b, FFP):
        return FFP(z3.If(g, to_fp(a), to_fp(b)))
    if isinstance(a, float) and isinstance(b, float) and (a == b):
        return a
    ia = a.v if isinstance(a, FInt) else (int(a) if is_intfloat(a) else None)
    ib = b.v if isinstance(b, FInt) else (int(b) if is_intfloat(b) else None)
    if ia is not None and ib is not None:
        return FInt(int_ite(g, ia, ib, 64, True), None)
    fc = _fc[0]
    return FReal(z3.If(g, to_real(fc, a), to_real(fc, b)))


_fc = [None]


F64 = z3.Float64()
RNE = z3.RNE()


def to_fp(v):
    v = force(v)
    if isinstance(v, FFP):
        return v.t
    if isinstance(v, float):
        return z3.FPVal(v, F64)
    if isinstance(v, FInt):
        return z3.fpSignedToFP(RNE, tobv(v.v, 64), F64)
    raise Unsupported('to_fp %r' % (v,))


def fp_binop(op, a, b):
    ta, tb = to_fp(a), to_fp(b)
    if op == '+':
        return FFP(z3.fpAdd(RNE, ta, tb))
    if op == '-':
        return FFP(z3.fpSub(RNE, ta, tb))
    if op == '*':
        return FFP(z3.fpMul(RNE, ta, tb))
    if op == '/':
        return FFP(z3.fpDiv(RNE, ta, tb))
    raise Unsupported('fp op ' + op)


def fp_cmp(op, a, b):
    ta, tb = to_fp(a), to_fp(b)
    return {'<': z3.fpLT, '<=': z3.fpLEQ, '>': z3.fpGT, '>=': z3.fpGEQ, '==': z3.fpEQ, '!=': z3.fpNEQ}[op](ta, tb)


def f_binop(fc, op, a, b, ex=None):
    if isinstance(a, FFP) or isinstance(b, FFP):
        return fp_binop(op, a, b)
    if isinstance(a, LazySel) and not isinstance(b, LazySel) and op in ('+', '-') and a._forced is None:
        return LazySel(a.idx, [f_binop(fc, op, c, b, ex) for c in a.cells], a.kind, a.w, a.signed)
    a = force(a)
    b = force(b)
    if isinstance(a, float) and isinstance(b, float):
        try:
            if op == '+':
                return a + b
            if op == '-':
                return a - b
            if op == '*':
                return a * b
            if op == '/':
                if b == 0.0:
                    if a == 0.0 or math.isnan(a):
                        return float('nan')
                    neg = (math.copysign(1, a) < 0) != (math.copysign(1, b) < 0)
                    return float('-inf') if neg else float('inf')
                return a / b
        except OverflowError:
            return float('inf')
        raise Unsupported('float op ' + op)
    ia = a.v if isinstance(a, FInt) else (int(a) if is_intfloat(a) else None)
    ib = b.v if isinstance(b, FInt) else (int(b) if is_intfloat(b) else None)
    if ia is not None and ib is not None:
        if op in ('+', '-'):
            r = int_binop(op, ia, ib, 64, True)
            return float(r) if isinstance(r, int) else FInt(r, None)
        if op == '*' and (isinstance(ia, int) or isinstance(ib, int)):
            r = int_binop('*', ia, ib, 64, True)
            return float(r) if isinstance(r, int) else FInt(r, None)
    ra, rb = to_real(fc, a), to_real(fc, b)
    if op == '+':
        return FReal(ra + rb)
    if op == '-':
        return FReal(ra - rb)
    if op == '*':
        return FReal(ra * rb)
    if op == '/':
        if ex is not None:
            ex.note_fdiv(rb)
        return FReal(ra / rb)
    raise Unsupported('float op ' + op)


def f_cmp(fc, op, a, b):
    a = force(a)
    b = force(b)
    if isinstance(a, FFP) or isinstance(b, FFP):
        return fp_cmp(op, a, b)
    if isinstance(a, float) and isinstance(b, float):
        return {'==': a == b, '!=': a != b, '<': a < b, '<=': a <= b, '>': a > b, '>=': a >= b}[op]
    # integer valued float against a concrete float: exact integer comparison
    if isinstance(a, FInt) and isinstance(b, float) and not (math.isinf(b) or math.isnan(b)):
        if op == '<':
            return int_cmp('<', a.v, math.ceil(b), 64, True)
        if op == '<=':
            return int_cmp('<=', a.v, math.floor(b), 64, True)
        if op == '>':
            return int_cmp('>', a.v, math.floor(b), 64, True)
        if op == '>=':
            return int_cmp('>=', a.v, math.ceil(b), 64, True)
        if op in ('==', '!='):
            if b != math.floor(b):
                return op == '!='
            return int_cmp(op, a.v, int(b), 64, True)
    if isinstance(b, FInt) and isinstance(a, float):
        flip = {'<': '>', '<=': '>=', '>': '<', '>=': '<=', '==': '==', '!=': '!='}[op]
        return f_cmp(fc, flip, b, a)
    if isinstance(a, FInt) and isinstance(b, FInt):
        return int_cmp(op, a.v, b.v, 64, True)
    ra, rb = to_real(fc, a), to_real(fc, b)
    if ra.eq(rb):
        return op in ('==', '<=', '>=')
    # affine function of ONE integer cut compared with a constant: decide on the integer (exact)
    if isinstance(b, float) or isinstance(a, float):
        t, cst, opx = (ra, b, op) if isinstance(b, float) else (rb, a, {'<': '>', '<=': '>=', '>': '<', '>=': '<=', '==': '==', '!=': '!='}[op])
        if not (math.isinf(cst) or math.isnan(cst)):
            af = affine_of(fc, t)
            if af is not None and af[0] is not None and af[1] != 0:
                var, ca, cb = af
                r = (Fraction(cst) - cb) / ca
                if ca < 0:
                    opx = {'<': '>', '<=': '>=', '>': '<', '>=': '<=', '==': '==', '!=': '!='}[opx]
                iv = fc.cutvars[var.get_id()][1]
                fl, ce = r.numerator // r.denominator, -((-r.numerator) // r.denominator)
                if opx == '<':
                    return int_cmp('<', iv, ce, 64, True)
                if opx == '<=':
                    return int_cmp('<=', iv, fl, 64, True)
                if opx == '>':
                    return int_cmp('>', iv, fl, 64, True)
                if opx == '>=':
                    return int_cmp('>=', iv, ce, 64, True)
                if r.denominator != 1:
                    return opx == '!='
                return int_cmp(opx, iv, int(r), 64, True)
    if op == '<':
        return ra < rb
    if op == '<=':
        return ra <= rb
    if op == '>':
        return ra > rb
    if op == '>=':
        return ra >= rb
    if op == '==':
        return ra == rb
    return ra != rb


def affine_of(fc, t, depth=0):
    """(cutvar or None, a, b) with t == a*cutvar + b, a and b Fractions; None if t is not of that shape"""
    if depth > 40:
        return None
    if z3.is_rational_value(t) or z3.is_int_value(t):
        return (None, Fraction(0), t.as_fraction())
    if not z3.is_app(t):
        return None
    if t.get_id() in fc.cutvars:
        return (t, Fraction(1), Fraction(0))
    k = t.decl().kind()
    ch = t.children()
    if k in (z3.Z3_OP_ADD, z3.Z3_OP_SUB):
        acc = None
        for i, c in enumerate(ch):
            r = affine_of(fc, c, depth + 1)
            if r is None:
                return None
            sign = -1 if (k == z3.Z3_OP_SUB and i > 0) else 1
            if acc is None:
                acc = (r[0], sign * r[1], sign * r[2])
            else:
                if acc[0] is not None and r[0] is not None and not acc[0].eq(r[0]):
                    return None
                acc = (acc[0] if acc[0] is not None else r[0], acc[1] + sign * r[1], acc[2] + sign * r[2])
        return acc
    if k == z3.Z3_OP_UMINUS:
        r = affine_of(fc, ch[0], depth + 1)
        return None if r is None else (r[0], -r[1], -r[2])
    if k == z3.Z3_OP_MUL:
        acc = (None, Fraction(0), Fraction(1))
        for c in ch:
            r = affine_of(fc, c, depth + 1)
            if r is None:
                return None
            if acc[0] is not None and r[0] is not None:
                return None
            if r[0] is None:
                acc = (acc[0], acc[1] * r[2], acc[2] * r[2])
            else:
                acc = (r[0], acc[2] * r[1], acc[2] * r[2])
        return acc
    if k == z3.Z3_OP_DIV:
        a_, b_ = affine_of(fc, ch[0], depth + 1), affine_of(fc, ch[1], depth + 1)
        if a_ is None or b_ is None or b_[0] is not None or b_[2] == 0:
            return None
        return (a_[0], a_[1] / b_[2], a_[2] / b_[2])
    return None


def f_neg(fc, a):
    a = force(a)
    if isinstance(a, FFP):
        return FFP(z3.fpNeg(a.t))
    if isinstance(a, float):
        return -a
    if isinstance(a, FInt):
        return FInt(int_binop('-', 0, a.v, 64, True), a.bound)
    return FReal(-a.t)
