"""Checks that are concrete computations over values read from the executed package initialisers."""
from fractions import Fraction
from mem import *


def _nolong(m, L):
    a = [0] * (m + 1)
    a[0] = 1
    for i in range(1, m + 1):
        s = 0
        for j in range(0, min(L, i - 1) + 1):
            s += a[i - 1 - j]
        if i <= L:
            s += 1
        a[i] = s
    return a[m]


def longest_run_tables(ex, st, prog):
    """parameters[] of the longest-run test vs exact class probabilities (rounded to the printed decimals)"""
    res = []
    sl = st.heap['g:github.com/Trisia/randomness.parameters']
    arr = tree_get(st.heap[sl.obj], sl.path)[sl.off:sl.off + sl.len]
    want = [(8, 3, 1, 4), (128, 5, 4, 4), (10000, 6, 10, 6)]
    ok_shape = len(arr) == 3
    res.append(('table has three regimes', ok_shape, str(len(arr))))
    for idx, (m, K, startV, digits) in enumerate(want):
        if idx >= len(arr):
            break
        pis, k, mm, sv = arr[idx]
        pvals = ex.slice_cells(st, pis)
        res.append(('regime %d: m,K,startV' % idx, (mm, k, sv) == (m, K, startV), '%r' % ((mm, k, sv),)))
        tot = 2 ** m
        cum = [Fraction(_nolong(m, L), tot) for L in range(0, startV + K + 1)]
        exact = [cum[startV]] + [cum[startV + i] - cum[startV + i - 1] for i in range(1, K)] + [1 - cum[startV + K - 1]]
        good = len(pvals) == K + 1
        detail = []
        for i, e in enumerate(exact):
            if i >= len(pvals):
                break
            r = round(float(e), digits)
            detail.append('%s vs exact %.8f' % (pvals[i], float(e)))
            if abs(pvals[i] - r) > 10 ** (-digits) / 2:
                good = False
        res.append(('regime %d: class probabilities to %d decimals' % (idx, digits), good, '; '.join(detail)))
    return res


PYCHECKS = {'longest_run_tables': longest_run_tables}


def fft_roots(ex, st, prog):
    """the twiddle table produced by the executed roots(N) (libm sin/cos on concrete arguments) against exp(-2 pi i n/N)
    evaluated with 50 digits: |E[n] - w^n| <= 4e-15 (the argument -2 pi n/N is itself rounded: up to ~1.4e-15)"""
    import mpmath
    mpmath.mp.dps = 50
    res = []
    fn = prog.funcs['github.com/Trisia/randomness/fft.roots']
    for N in (2, 4, 8, 16, 64, 256, 1024):
        s2, vals_ = ex.call_fn(fn, [N], st)
        cells = ex.slice_cells(s2, vals_[0])
        worst = 0.0
        for n, c in enumerate(cells):
            w = mpmath.e ** (-2j * mpmath.pi * n / N)
            err = max(abs(mpmath.mpf(c.re) - w.real), abs(mpmath.mpf(c.im) - w.imag))
            worst = max(worst, float(err))
        res.append(('roots(%d) within 4e-15 of exp(-2 pi i n/N)' % N, len(cells) == N and worst <= 4e-15, 'worst %.3g' % worst))
    return res


PYCHECKS['fft_roots'] = fft_roots


# ---------------------------------------------------------------------------------------------
# C13: batch detector columns. The worker of each scale is executed symbolically on one file whose bytes are
# symbolic; every library test is an uninterpreted function of (data, parameters) (stub set lib_summaries), so the
# value in a column is a named variable. The oracle is built from the header constant of the same source file.

import re as _re
import z3 as _z3
RD = 'github.com/Trisia/randomness/tools/rddetector'
RPK = 'github.com/Trisia/randomness'


def _expected_for_label(label):
    """label -> list of acceptable (function, extra args tuple, component) ; component 0 = P/P1, 1 = Q (or P2 ...)"""
    m = _re.match(r'\[\s*\d+\]\s+(P1|Q1|P2|Q2|P|Q)\s+(.*)$', label.strip())
    if not m:
        return None
    col, rest = m.group(1), m.group(2).strip()
    par = dict(_re.findall(r'(\w+)=(\d+)', rest))
    name = rest.split(' ')[0]
    comp2 = {'P': 0, 'Q': 1}
    comp4 = {'P1': 0, 'P2': 1, 'Q1': 2, 'Q2': 3}
    if name == '单比特频数检测':
        return [('MonoBitFrequencyTestBytes', 'buf', (), comp2[col]), ('MonoBitFrequencyTest', 'bits', (), comp2[col])]
    if name == '块内频数检测':
        return [('FrequencyWithinBlockProto', 'bits', (int(par['m']),), comp2[col])]
    if name == '扑克检测':
        return [('PokerTestBytes', 'buf', (int(par['m']),), comp2[col]), ('PokerProto', 'bits', (int(par['m']),), comp2[col])]
    if name == '重叠子序列检测':
        return [('OverlappingTemplateMatchingProto', 'bits', (int(par['m']),), comp4[col])]
    if name == '游程总数检测':
        return [('RunsTest', 'bits', (), comp2[col])]
    if name == '游程分布检测':
        return [('RunsDistributionTest', 'bits', (), comp2[col])]
    if name.startswith('块内最大'):
        return [('LongestRunOfOnesInABlockProto', 'bits', ('1' in name,), comp2[col])]
    if name == '二元推导检测':
        return [('BinaryDerivativeProto', 'bits', (int(par['k']),), comp2[col])]
    if name == '自相关检测':
        return [('AutocorrelationProto', 'bits', (int(par['d']),), comp2[col])]
    if name == '矩阵秩检测':
        return [('MatrixRankProto', 'bits', (32, 32), comp2[col])]
    if name == '累加和检测':
        return [('CumulativeTest', 'bits', ('前向' in rest,), comp2[col])]
    if name == '近似熵检测':
        return [('ApproximateEntropyProto', 'bits', (int(par['m']),), comp2[col])]
    if name in ('线性复杂度检测', '线型复杂度检测'):
        return [('LinearComplexityProto', 'bits', (int(par['m']),), comp2[col])]
    if name.startswith('Maurer') or name == '通用统计检测':
        return [('MaurerUniversalTest', 'bits', (), comp2[col])]
    if name == '离散傅里叶检测':
        return [('DiscreteFourierTransformTest', 'bits', (), comp2[col])]
    return None


def _header_const(prog, fnname):
    """the header string constant used by main for this scale: read from main's SSA (string constants starting with 源数据)"""
    consts = []
    for b in prog.funcs[RD + '.main'].blocks:
        for ins in b['instrs']:
            stack = list(ins.values())
            while stack:
                v = stack.pop()
                if isinstance(v, list):
                    stack.extend(v)
                elif isinstance(v, dict) and 'str' in v and v['str'].startswith('源数据') and v['str'] not in consts:
                    consts.append(v['str'])
    return consts


def rddetector_columns(ex, st, prog, scale):
    import stubs
    from vals import FReal
    res = []
    hdrs = _header_const(prog, 'main')
    # main assigns Header_2E4 / Header_1E6 / Header_1E8 in the order of its switch
    if len(hdrs) != 3:
        return [('three header constants found in main', False, str(len(hdrs)))]
    # identify the header of this scale by its block-frequency parameter (m=1000 / 10000 / 100000)
    want = {'2E4': 'm=1000,', '1E6': 'm=10000,', '1E8': 'm=100000,'}[scale]
    cand = [h for h in hdrs if ('块内频数检测 ' + want) in h]
    if len(cand) != 1:
        return [('header of scale %s identified' % scale, False, str(len(cand)))]
    hdr = cand[0]
    labels = [x for x in hdr.strip().split(',')][1:]
    # symbolic file content
    import intr
    data = intr.v_bytes(ex, None, st, [8], {})
    ex.tmpfile_data = data
    jobs = stubs.c_makechan(ex, None, st, {})
    out = stubs.c_makechan(ex, None, st, {})
    c = stubs._conc(ex)
    c['chans'][jobs.data]['q'].append('verif-tmp-file')
    c['chans'][jobs.data]['closed'] = True
    fn = prog.funcs[RD + '.worker_' + scale]
    s2, _ = ex.call_fn(fn, [jobs, out], st)
    if s2 is None:
        return [('worker_%s runs to completion' % scale, False, 'all paths died: ' + '; '.join(o.label for o in ex.obls if o.kind == 'panic'))]
    st.heap, st.pc = s2.heap, s2.pc
    for f, a in c['pending']:
        class _Fr(object):
            env = {}
        ex.call_value(None, st, f, a, {})
    c['pending'] = []
    q = c['chans'][out.data]['q']
    res.append(('one result row per job', len(q) == 1, '%d rows' % len(q)))
    if len(q) != 1:
        return res
    R = ex.load(st, q[0], None)
    name, P, Q = R
    Pc, Qc = ex.slice_cells(st, P), ex.slice_cells(st, Q)
    res.append(('row name is the base name of the file', name == 'verif-tmp-file', repr(name)))
    ncols = len(labels)
    res.append(('value columns == header columns (%d)' % ncols, len(Pc) + len(Qc) == ncols and len(Pc) == len(Qc), 'P %d Q %d header %d' % (len(Pc), len(Qc), ncols)))
    # row layout written by resultWriter: P[0],Q[0],P[1],Q[1],...
    row = []
    for j in range(min(len(Pc), len(Qc))):
        row += [Pc[j], Qc[j]]
    bits = ex.call_named(None, st, RPK + '.B2bitArr', [data], {})
    argsrc = {'buf': data, 'bits': bits}
    # inverse map: variable name -> (function, args, component) for readable messages
    names = {}
    for key, vals_ in ex.sum_table.items():
        for i, v in enumerate(vals_):
            short = key[0].rsplit('.', 1)[-1]
            params = tuple(k for k in key[1:] if not isinstance(k, tuple))
            names[v.t.get_id()] = '%s%s[%d]' % (short, params, i)
    for j, lab in enumerate(labels):
        exp = _expected_for_label(lab)
        if exp is None:
            res.append(('column %d label understood: %s' % (j + 1, lab.strip()), False, 'unknown label'))
            continue
        if j >= len(row):
            continue
        got = row[j]
        ok = False
        want_names = []
        for (fname, src, extra, comp) in exp:
            h = ex.intr[RPK + '.' + fname]
            r = h(ex, None, st, [argsrc[src]] + list(extra), {})
            wv = r[comp]
            want_names.append('%s%s[%d]' % (fname, extra, comp))
            if isinstance(got, FReal) and got.t.eq(wv.t):
                ok = True
        gotname = names.get(got.t.get_id(), '?') if isinstance(got, FReal) else repr(got)
        res.append(('column %d "%s" carries %s' % (j + 1, lab.strip(), ' or '.join(want_names)), ok, 'carries ' + gotname))
    return res


def _rd(scale):
    return lambda ex, st, prog: rddetector_columns(ex, st, prog, scale)


PYCHECKS['rddetector_columns_2E4'] = _rd('2E4')
PYCHECKS['rddetector_columns_1E6'] = _rd('1E6')
PYCHECKS['rddetector_columns_1E8'] = _rd('1E8')


# ---------------------------------------------------------------------------------------------
# C20: sample generator. main() and worker() of tools/rdgen are executed symbolically with the flag values given
# (s, n, output), the file-system calls recorded, crypto/rand filling each buffer with a fresh block.

RG = 'github.com/Trisia/randomness/tools/rdgen'


def rdgen_files(ex, st, prog, s, n, output):
    import posixpath
    import stubs
    from mem import Ptr, Iface, Opaque, Slice
    fsops = {'mkdir': [], 'open': [], 'write': [], 'close': [], 'reads': 0}
    cwd = '/cwd'

    def absp(p):
        return posixpath.normpath(p if p.startswith('/') else posixpath.join(cwd, p))

    def flag_parse(e, fr, st_, args, ins):
        e.store(st_, Ptr('g:' + RG + '.s'), s)
        e.store(st_, Ptr('g:' + RG + '.n'), n)
        e.store(st_, Ptr('g:' + RG + '.output'), output)
        return None

    def fp_abs(e, fr, st_, args, ins):
        return (absp(args[0]), None)

    def mkdirall(e, fr, st_, args, ins):
        fsops['mkdir'].append(absp(args[0]))
        return None

    def openfile(e, fr, st_, args, ins):
        path = absp(args[0])
        fsops.setdefault('flags', []).append(args[1])
        fobj = Opaque('file', (path, len(fsops['open'])))
        fsops['open'].append(path)
        oid = e.new_obj(st_, fobj)
        return (Ptr(oid, ()), None)

    def fwrite(e, fr, st_, args, ins):
        f, buf = args
        fobj = e.load(st_, f, None)
        content = st_.heap.get(buf.obj) if buf.obj is not None else None
        if isinstance(content, tuple) and content and content[0] == 'randtok':
            fsops['write'].append((fobj.data[0], buf.len, ('rnd', content[1], buf.off, buf.len), None))
            return (buf.len, None)
        cells = e.slice_cells(st_, buf)
        fsops['write'].append((fobj.data[0], len(cells), ('cells',) + tuple(id(c) if not isinstance(c, int) else c for c in cells[:4]), cells))
        return (len(cells), None)

    def fclose(e, fr, st_, args, ins):
        if args[0] is not None:
            fobj = e.load(st_, args[0], None)
            fsops['close'].append(fobj.data[0])
        return None

    def rand_read(e, fr, st_, args, ins):
        r, buf = args
        fsops['reads'] += 1
        k = fsops['reads']
        whole = st_.heap.get(buf.obj)
        full = len(whole) if isinstance(whole, list) else (whole[2] if isinstance(whole, tuple) else -1)
        if buf.off == 0 and buf.len == full and not buf.path:
            # the whole buffer is refilled: its content is one fresh block of the random source
            st_.heap[buf.obj] = ('randtok', k, full)
            if not e.inputs:
                e.inputs.append(('int', _z3.BitVec('rndblock', 64)))
            e.inputs.append(('int', _z3.BitVec('rndblock!%d' % k, 64)))
        else:
            for i in range(buf.len):
                e.store(st_, Ptr(buf.obj, buf.path + (buf.off + i,)), _z3.BitVec('rnd!%d!%d' % (k, i), 8))
        return (buf.len, None)

    def fp_join(e, fr, st_, args, ins):
        parts = e.slice_cells(st_, args[0])
        return posixpath.normpath(posixpath.join(*parts)) if parts else ''

    ex.intr.update({'path/filepath.Join': fp_join, 'flag.Parse': flag_parse, 'path/filepath.Abs': fp_abs, 'os.MkdirAll': mkdirall, 'os.OpenFile': openfile,
                    '(*os.File).Write': fwrite, '(*os.File).Close': fclose, '#opaque.randreader.Read': rand_read,
                    'fmt.Sprintf': __import__('intr').fmt_sprintf})
    st.heap['g:crypto/rand.Reader'] = Iface('*rand.reader', Opaque('randreader', None))
    fn = prog.funcs[RG + '.main']
    s2, _ = ex.call_fn(fn, [], st)
    res = []
    if s2 is None:
        return [('main runs to completion', False, '; '.join(o.label for o in ex.obls))]
    dead = [o for o in ex.obls if o.kind == 'deadlock']
    res.append(('main returns (WaitGroup reaches zero: every job signals Done once)', not dead, '; '.join(o.label for o in dead)))
    outdir = absp(output)
    want = [posixpath.join(outdir, 'random%d.bin' % i) for i in range(s)]
    written = [w[0] for w in fsops['write']]
    res.append(('exactly the s files random0.bin .. random(s-1).bin are written inside the requested directory %s' % outdir,
                sorted(written) == sorted(want), 'written: %s' % sorted(set(written))[:4]))
    per = {}
    for w in fsops['write']:
        per[w[0]] = per.get(w[0], 0) + w[1]
    res.append(('every file receives exactly n/8 = %d bytes in total' % (n // 8), all(v == n // 8 for v in per.values()) and len(per) == s,
                str(sorted(per.values())[:4])))
    res.append(('every file is closed', sorted(fsops['close']) == sorted(fsops['open']), ''))
    # linux: O_WRONLY 1, O_RDWR 2, O_CREATE 0x40, O_TRUNC 0x200
    fl = fsops.get('flags', [])
    res.append(('files are opened for writing with O_CREATE|O_TRUNC (a pre-existing longer file must end up with exactly n/8 bytes)',
                all(isinstance(f, int) and (f & 0x40) and (f & 0x200) and (f & 3) in (1, 2) for f in fl) and len(fl) == s, 'flags %s' % [hex(f) if isinstance(f, int) else f for f in fl][:3]))
    res.append(('the output directory is created', outdir in fsops['mkdir'], str(fsops['mkdir'])))
    # contents: each file holds bytes obtained by a read made for that file (fresh block per file)
    blocks = [w[2] for w in fsops['write']]
    res.append(('file contents come from distinct reads of the random source (pairwise different unless the source repeats)',
                len(set(blocks)) == len(blocks) and fsops['reads'] >= s, 'reads %d' % fsops['reads']))
    return res


def _rg(s, n, output):
    return lambda ex, st, prog: rdgen_files(ex, st, prog, s, n, output)


for _i, (_s, _n, _o) in enumerate([(1, 64, 'target/data'), (3, 20000, 'target/data'), (3, 64, '/abs/out'), (2, 20000, 'rel/nested/dir'), (5, 64, '/x'), (2, 100000000, '/big')]):
    PYCHECKS['rdgen_files_%d' % _i] = _rg(_s, _n, _o)


def rddetector_count(ex, st, prog):
    """toBeTestFileNum over a directory walk with SYMBOLIC entries: every entry may be a directory or a regular file of
    any size; names cover .bin, .dat, other suffixes and nested paths. samples must be the number of regular files with
    a sample suffix and bits 8 x the largest size among exactly those."""
    from mem import Iface, Opaque, Closure, FuncRef
    from ops import int_cmp, int_ite, int_binop, tobv
    from vals import b_and, b_not, gs_indicator, gs_add, gs_from, GSum
    paths = ['/in', '/in/a.bin', '/in/sub/b.dat', '/in/readme.txt', '/in/old_report.csv', '/in/c.bin', '/in/dir.bin']
    isdir = [_z3.Bool('isdir_%d' % i) for i in range(len(paths))]
    size = [_z3.BitVec('size_%d' % i, 64) for i in range(len(paths))]
    for i in range(len(paths)):
        ex.inputs.append(('bool', isdir[i]))
        ex.inputs.append(('int', size[i]))
    st.pc = st.pc + tuple(_z3.And(s >= 0, s <= (1 << 40)) for s in size)

    def walk(e, fr, st_, args, ins):
        root, f = args
        for i, p in enumerate(paths):
            info = Iface('os.FileInfo', Opaque('fileinfo', i))
            e.call_value(fr, st_, f, [p, info, None], ins)
        return None

    def fi_isdir(e, fr, st_, args, ins):
        return isdir[args[0].data]

    def fi_size(e, fr, st_, args, ins):
        return size[args[0].data]

    def has_suffix(e, fr, st_, args, ins):
        return args[0].endswith(args[1])

    ex.intr.update({'path/filepath.Walk': walk, '#opaque.fileinfo.IsDir': fi_isdir, '#opaque.fileinfo.Size': fi_size,
                    'strings.HasSuffix': has_suffix})
    fn = prog.funcs[RD + '.toBeTestFileNum']
    s2, vals_ = ex.call_fn(fn, ['/in'], st)
    if s2 is None:
        return [('toBeTestFileNum returns', False, '')]
    samples, bits = vals_
    import discharge
    d = discharge.Discharger(ex)
    # specification
    want_n = 0
    want_bits = 0
    for i, p in enumerate(paths):
        if p.endswith('.bin') or p.endswith('.dat'):
            reg = b_not(isdir[i])
            want_n = gs_add(gs_from(want_n, 64) if not isinstance(want_n, int) else GSum(64, want_n, {}), gs_indicator(reg, 64, 1))
            b8 = size[i] * 8
            want_bits = _z3.If(_z3.And(reg, b8 > tobv(want_bits, 64)), b8, tobv(want_bits, 64))
    res = []
    r1, _ = d.check(list(s2.pc) + [tobv(samples, 64) != tobv(want_n, 64)])
    res.append(('samples == number of regular files ending in .bin/.dat (directories and other files ignored)', r1 == _z3.unsat, str(r1)))
    r2, m2 = d.check(list(s2.pc) + [tobv(bits, 64) != tobv(want_bits, 64)], want_model=True)
    det = str(r2)
    if m2 is not None:
        det += ' e.g. ' + ', '.join('%s: dir=%s size=%s' % (paths[i], m2.eval(isdir[i], model_completion=True), m2.eval(size[i], model_completion=True)) for i in range(len(paths)))
    res.append(('bits == 8 x the largest size among exactly those sample files', r2 == _z3.unsat, det[:400]))
    return res


PYCHECKS['rddetector_count'] = rddetector_count


def rddetector_writer(ex, st, prog):
    """resultWriter: for every R received, the bytes written are: the name, then ", %0.6f, %0.6f" of (P[j], Q[j]) for every j
    in order, then a newline; exactly one Done per row. The io.Writer, bufio.Writer and fmt.Fprintf are modelled as
    appending to one output stream."""
    import stubs
    from mem import Ptr, Iface, Opaque, Slice
    from vals import FReal
    outstream = []

    def emit(x):
        if isinstance(x, str):
            if outstream and isinstance(outstream[-1], str):
                outstream[-1] += x
            else:
                outstream.append(x)
        else:
            outstream.append(x)

    def emit_slice(e, st_, sl):
        cells = e.slice_cells(st_, sl)
        if len(cells) == 1 and isinstance(cells[0], tuple) and cells[0][0] == 'strtok':
            emit(cells[0][1])
        elif all(isinstance(c, int) for c in cells):
            emit(bytes(cells).decode('utf-8', 'replace'))
        else:
            emit(('bytes', len(cells)))

    def w_write(e, fr, st_, args, ins):
        emit_slice(e, st_, args[1])
        return (args[1].len, None)

    def bufio_new(e, fr, st_, args, ins):
        return Ptr(e.new_obj(st_, Opaque('bufw', None)), ())

    def bufw_write(e, fr, st_, args, ins):
        emit_slice(e, st_, args[1])
        return (args[1].len, None)

    def bufw_writestring(e, fr, st_, args, ins):
        emit(args[1])
        return (0, None)

    def ret_nil(e, fr, st_, args, ins):
        return None

    def fprintf(e, fr, st_, args, ins):
        fmtstr = args[1]
        va = args[2]
        cells = e.slice_cells(st_, va) if isinstance(va, Slice) else []
        vals_ = tuple(c.val if isinstance(c, Iface) else c for c in cells)
        if not vals_ and isinstance(fmtstr, str):
            # Sprintf of a format without arguments: verbs in it are NOT copied literally
            emit(fmtstr if '%' not in fmtstr else ('format-without-args', fmtstr))
        else:
            emit(('sprintf', fmtstr, vals_))
        return (0, None)

    def io_writestring(e, fr, st_, args, ins):
        emit(args[1])
        return (0, None)

    ex.intr.update({'#opaque.writer.Write': w_write, 'bufio.NewWriter': bufio_new, 'bufio.NewWriterSize': bufio_new,
                    '(*bufio.Writer).Write': bufw_write, '(*bufio.Writer).WriteString': bufw_writestring,
                    '(*bufio.Writer).Flush': ret_nil, '(*bufio.Writer).WriteByte': lambda e, fr, st_, a, i: (emit(chr(a[1])) if isinstance(a[1], int) else emit(('byte',)), None)[1],
                    'fmt.Fprintf': fprintf, 'io.WriteString': io_writestring})
    rows = [('plain_name.bin', 2), ('rng%20unit%d%s.bin', 3), ('x.dat', 0)]
    cin = stubs.c_makechan(ex, None, st, {})
    c = stubs._conc(ex)
    made = []
    for name, k in rows:
        P = [FReal(_z3.Real('P_%s_%d' % (name[:3], j))) for j in range(k)]
        Q = [FReal(_z3.Real('Q_%s_%d' % (name[:3], j))) for j in range(k)]
        po = ex.new_obj(st, list(P))
        qo = ex.new_obj(st, list(Q))
        ro = ex.new_obj(st, [name, Slice(po, (), 0, k, k), Slice(qo, (), 0, k, k)])
        c['chans'][cin.data]['q'].append(Ptr(ro, ()))
        made.append((name, P, Q))
        for v in P + Q:
            ex.inputs.append(('float', v.t))
    c['chans'][cin.data]['closed'] = True
    wgo = ex.new_obj(st, [0])
    wg = Ptr(wgo, ())
    stubs.c_wg_add(ex, None, st, [wg, len(rows)], {})
    w = Iface('*verif.writer', Opaque('writer', None))
    fn = prog.funcs[RD + '.resultWriter']
    s2, _ = ex.call_fn(fn, [cin, w, wg], st)
    res = []
    if s2 is None:
        return [('resultWriter returns when its input channel is closed', False, '; '.join(o.label for o in ex.obls))]
    cnt = s2.heap.get(stubs._wg_key(wg), 0)
    res.append(('exactly one Done per row (WaitGroup counter back to zero)', cnt == 0, str(cnt)))
    want = []
    for name, P, Q in made:
        want.append(name)
        for j in range(len(P)):
            want.append(('sprintf', ', %0.6f, %0.6f', (P[j], Q[j])))
        want.append('\n')
    # normalise both streams: merge adjacent strings
    def norm(seq):
        out = []
        for x in seq:
            if isinstance(x, str) and out and isinstance(out[-1], str):
                out[-1] += x
            else:
                out.append(x)
        return out

    def same(a, b):
        if isinstance(a, str) or isinstance(b, str):
            return a == b
        if a[0] != b[0] or a[1] != b[1] or len(a[2]) != len(b[2]):
            return False
        return all(isinstance(x, FReal) and isinstance(y, FReal) and x.t.eq(y.t) for x, y in zip(a[2], b[2]))
    got, exp = norm(outstream), norm(want)
    ok = len(got) == len(exp) and all(same(a, b) for a, b in zip(got, exp))
    det = ''
    if not ok:
        for i in range(max(len(got), len(exp))):
            a = got[i] if i < len(got) else None
            b = exp[i] if i < len(exp) else None
            if a is None or b is None or not same(a, b):
                det = 'first difference at token %d: wrote %r, expected %r' % (i, (a if isinstance(a, str) else (a[:2] if a else a)), (b if isinstance(b, str) else (b[:2] if b else b)))
                break
    res.append(('each row is: base name, then ", %0.6f, %0.6f" of (P[j], Q[j]) for every column pair in order, then a newline (also for names containing %)', ok, det))
    return res


PYCHECKS['rddetector_writer'] = rddetector_writer
