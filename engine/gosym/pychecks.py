"""Checks that are concrete computations over values read from the executed package initialisers."""
from fractions import Fraction
from mem import *


def _nolong(m, L):
    a = [0] * (m + 1)
    a[0] = 1
    for i in range(1, m + 1):
        s = 0
        for j in range(0, min(L, i - 1) + 1):
            s += a[i - 1 - j]
        if i <= L:
            s += 1
        a[i] = s
    return a[m]


def longest_run_tables(ex, st, prog):
    """parameters[] of the longest-run test vs exact class probabilities (rounded to the printed decimals)"""
    res = []
    sl = st.heap['g:github.com/Trisia/randomness.parameters']
    arr = tree_get(st.heap[sl.obj], sl.path)[sl.off:sl.off + sl.len]
    want = [(8, 3, 1, 4), (128, 5, 4, 4), (10000, 6, 10, 6)]
    ok_shape = len(arr) == 3
    res.append(('table has three regimes', ok_shape, str(len(arr))))
    for idx, (m, K, startV, digits) in enumerate(want):
        if idx >= len(arr):
            break
        pis, k, mm, sv = arr[idx]
        pvals = ex.slice_cells(st, pis)
        res.append(('regime %d: m,K,startV' % idx, (mm, k, sv) == (m, K, startV), '%r' % ((mm, k, sv),)))
        tot = 2 ** m
        cum = [Fraction(_nolong(m, L), tot) for L in range(0, startV + K + 1)]
        exact = [cum[startV]] + [cum[startV + i] - cum[startV + i - 1] for i in range(1, K)] + [1 - cum[startV + K - 1]]
        good = len(pvals) == K + 1
        detail = []
        for i, e in enumerate(exact):
            if i >= len(pvals):
                break
            r = round(float(e), digits)
            detail.append('%s vs exact %.8f' % (pvals[i], float(e)))
            if abs(pvals[i] - r) > 10 ** (-digits) / 2:
                good = False
        res.append(('regime %d: class probabilities to %d decimals' % (idx, digits), good, '; '.join(detail)))
    return res


PYCHECKS = {'longest_run_tables': longest_run_tables}


def fft_roots(ex, st, prog):
    """the twiddle table produced by the executed roots(N) (libm sin/cos on concrete arguments) against exp(-2 pi i n/N)
    evaluated with 50 digits: |E[n] - w^n| <= 4e-15 (the argument -2 pi n/N is itself rounded: up to ~1.4e-15)"""
    import mpmath
    mpmath.mp.dps = 50
    res = []
    fn = prog.funcs['github.com/Trisia/randomness/fft.roots']
    for N in (2, 4, 8, 16, 64, 256, 1024):
        s2, vals_ = ex.call_fn(fn, [N], st)
        cells = ex.slice_cells(s2, vals_[0])
        worst = 0.0
        for n, c in enumerate(cells):
            w = mpmath.e ** (-2j * mpmath.pi * n / N)
            err = max(abs(mpmath.mpf(c.re) - w.real), abs(mpmath.mpf(c.im) - w.imag))
            worst = max(worst, float(err))
        res.append(('roots(%d) within 4e-15 of exp(-2 pi i n/N)' % N, len(cells) == N and worst <= 4e-15, 'worst %.3g' % worst))
    return res


PYCHECKS['fft_roots'] = fft_roots
