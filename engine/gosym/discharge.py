import os
"""Discharging obligations with z3: increment matching for count equalities, cut unification and
tolerance-aware comparison of float tails, model extraction for replay."""
import re
import time
import z3
from fractions import Fraction
from vals import *
from ops import *
import vals as _vals

ARGTOL = Fraction(1, 10 ** 9)
# Lipschitz constants used when an argument of an uninterpreted library function is only known
# up to ARGTOL (pencil bridge, see DESIGN 2.4): erfc/erf 2/sqrt(pi) < 1.13; igamc(a, .) <= 1 for a >= 1
LIPS = {'erfc': Fraction(113, 100), 'erf': Fraction(113, 100), 'igamc': Fraction(1), 'cabs': Fraction(1)}
EXACT_ARGS = {('igamc', 0)}



def interval(t, ranges, memo):
    """interval (lo, hi) as Fractions of a real-valued z3 term; None if unbounded/unsupported"""
    k = t.get_id()
    if k in memo:
        return memo[k]
    r = _interval(t, ranges, memo)
    memo[k] = r
    return r


def _imul(a, b):
    ps = [a[0] * b[0], a[0] * b[1], a[1] * b[0], a[1] * b[1]]
    return (min(ps), max(ps))


def _interval(t, ranges, memo):
    if z3.is_rational_value(t):
        f = t.as_fraction()
        return (f, f)
    if z3.is_int_value(t):
        f = Fraction(t.as_long())
        return (f, f)
    if not z3.is_app(t):
        return None
    kd = t.decl().kind()
    if kd == z3.Z3_OP_UNINTERPRETED and t.num_args() == 0:
        return ranges.get(t.get_id())
    ch = [interval(c, ranges, memo) for c in t.children()] if kd != z3.Z3_OP_ITE else None
    if kd == z3.Z3_OP_ITE:
        a = interval(t.arg(1), ranges, memo)
        b = interval(t.arg(2), ranges, memo)
        if a is None or b is None:
            return None
        return (min(a[0], b[0]), max(a[1], b[1]))
    if any(c is None for c in ch):
        return None
    if kd == z3.Z3_OP_ADD:
        return (sum(c[0] for c in ch), sum(c[1] for c in ch))
    if kd == z3.Z3_OP_SUB:
        lo, hi = ch[0]
        for c in ch[1:]:
            lo, hi = lo - c[1], hi - c[0]
        return (lo, hi)
    if kd == z3.Z3_OP_UMINUS:
        return (-ch[0][1], -ch[0][0])
    if kd == z3.Z3_OP_MUL:
        r = ch[0]
        for c in ch[1:]:
            r = _imul(r, c)
        return r
    if kd == z3.Z3_OP_DIV:
        a, b = ch
        if b[0] <= 0 <= b[1]:
            return None
        return _imul(a, (1 / b[1], 1 / b[0]))
    if kd == z3.Z3_OP_POWER:
        if z3.is_rational_value(t.arg(1)) or z3.is_int_value(t.arg(1)):
            e = t.arg(1).as_fraction()
            if e.denominator == 1 and e >= 0:
                r = (Fraction(1), Fraction(1))
                for _ in range(int(e)):
                    r = _imul(r, ch[0])
                if int(e) % 2 == 0:
                    r = (max(r[0], Fraction(0)), r[1])
                return r
        return None
    return None


class Result(object):
    def __init__(self, obl, verdict, detail='', model=None, t=0.0, queries=0):
        self.obl = obl
        self.verdict = verdict   # 'unsat' | 'sat' | 'unknown' | 'reach-ok' | 'reach-fail' | 'trivial'
        self.detail = detail
        self.model = model
        self.t = t
        self.queries = queries


class Discharger(object):
    def __init__(self, ex, timeout_ms=60000):
        self.ex = ex
        self.timeout = timeout_ms
        self.varsets = {}
        self.equiv_cache = {}
        self.cut_uf = {}      # union-find over cut vars (by id)
        self.cut_rep = {}
        self.stats = {'queries': 0, 'solver_s': 0.0, 'pair_queries': 0, 'syntactic': 0, 'unknown': 0}
        self.smt2 = []
        self.witness = None
        self.cut_merges = []
        self.pair_solver = z3.Solver()
        self.pair_solver.set('timeout', 10000)
        self.cuts_memo = {}
        self.max_tries = 16

    # ------------------------------------------------------------ solver plumbing
    def check(self, assertions, timeout=None, want_model=False):
        s = z3.Solver()
        s.set('timeout', timeout or self.timeout)
        for a in assertions:
            if isinstance(a, bool):
                if not a:
                    return z3.unsat, None
                continue
            s.add(a)
        t = time.time()
        r = s.check()
        dt = time.time() - t
        if os.environ.get('DBG') and dt > 2:
            import traceback; traceback.print_stack(limit=6)
        self.stats['queries'] += 1
        self.stats['solver_s'] += dt
        if r == z3.unknown:
            self.stats['unknown'] += 1
        m = s.model() if (r == z3.sat and want_model) else None
        if len(self.smt2) < 3:
            try:
                self.smt2.append(s.to_smt2()[:4000])
            except Exception:
                pass
        return r, m

    def varset(self, t):
        k = t.get_id()
        r = self.varsets.get(k)
        if r is not None:
            return r
        seen = set()
        out = set()
        stack = [t]
        while stack:
            x = stack.pop()
            i = x.get_id()
            if i in seen:
                continue
            seen.add(i)
            if z3.is_const(x) and x.decl().kind() == z3.Z3_OP_UNINTERPRETED:
                out.add(x.decl().name())
            else:
                stack.extend(x.children())
        r = frozenset(out)
        self.varsets[k] = r
        pin(t)
        return r

    def maxvar(self, vs):
        best = None
        for v in vs:
            k = tuple(int(p) if p.isdigit() else p for p in re.split(r'(\d+)', v))
            if best is None or k > best:
                best = k
        return best

    # ------------------------------------------------------------ integer equalities
    def equiv(self, pc, g1, g2):
        if g1.eq(g2):
            return True
        key = (g1.get_id(), g2.get_id())
        r = self.equiv_cache.get(key)
        if r is None:
            r = self.equiv_cache.get(key + (tuple(t.get_id() for t in pc),))
        if r is None:
            self.stats['pair_queries'] += 1
            t = time.time()
            s = z3.Solver()
            s.set('timeout', 10000)
            s.add(z3.Xor(g1, g2))
            res = s.check()
            used_pc = False
            if res != z3.unsat and pc:
                used_pc = True
                # retry under the part of the path condition that talks about the same variables
                vs = self.varset(g1) | self.varset(g2)
                s = z3.Solver()
                s.set('timeout', 10000)
                for x in pc:
                    if not vs.isdisjoint(self.varset(x)):
                        s.add(x)
                s.add(z3.Xor(g1, g2))
                res = s.check()
            self.stats['solver_s'] += time.time() - t
            r = (res == z3.unsat)
            pin(g1, g2, *pc)
            if used_pc and r:
                self.equiv_cache[key + (tuple(t.get_id() for t in pc),)] = r    # proven only under this path condition
            else:
                self.equiv_cache[key] = r
        return r

    def match_increments(self, pc, d):
        """d: GSum that should be identically zero. Entries are cancelled pairwise: c[g] - c[g'] with g == g'
        (proven), or c[g] + c[g'] with g == not g' (adds c to the constant)."""
        w = d.w
        const = canon(d.const, w, True)
        byabs = {}
        for g, c in d.terms.values():
            cc = canon(c, w, True)
            byabs.setdefault(abs(cc), []).append((g, cc))
        for c, ents in byabs.items():
            n = len(ents)
            used = [False] * n
            vss = [self.varset(g) for g, _ in ents]
            mxs = [self.maxvar(v) for v in vss]
            for i in range(n):
                if used[i]:
                    continue
                gi, ci = ents[i]
                order = sorted((j for j in range(i + 1, n) if not used[j]),
                               key=lambda j: (vss[j] != vss[i], mxs[j] != mxs[i], len(vss[j] ^ vss[i])))
                ok = False
                tried = 0
                for j in order:
                    if vss[j] != vss[i] and tried >= self.max_tries:
                        break
                    tried += 1
                    gj, cj = ents[j]
                    if ci == -cj:
                        if self.equiv(pc, gi, gj):
                            used[i] = used[j] = True
                            ok = True
                            break
                    else:
                        if self.equiv(pc, gi, z3.Not(gj)):
                            used[i] = used[j] = True
                            const += ci
                            ok = True
                            break
                if not ok:
                    self.last_unmatched = (gi, ci)
                    return False
        return canon(const, w, False) == 0

    def prove_int_equal(self, pc, a, b, w=64):
        """returns 'unsat' (equal), 'sat', 'unknown' ; with model for sat"""
        ga, gb = gs_from(a, w), gs_from(b, w)
        if ga is not None and gb is not None:
            d = gs_add(ga, gb, -1)
            if isinstance(d, int):
                if canon(d, w, False) == 0:
                    self.stats['syntactic'] += 1
                    return 'unsat', None
                return 'sat', None
            if self.match_increments(pc, d):
                return 'unsat', None
            ta = d.bv()
            res, m = self.check(list(pc) + [ta != z3.BitVecVal(0, w)], want_model=True)
        else:
            res, m = self.check(list(pc) + [tobv(a, w) != tobv(b, w)], want_model=True)
        return str(res), m

    # ------------------------------------------------------------ cuts
    def merge_cuts(self, pc, x, y):
        """x == y was proven under pc: valid for this and every obligation whose path condition extends pc"""
        self.cut_merges.append((tuple(t.get_id() for t in pc), x, y))
        pin(*pc)
        self.cut_uf[self.find(x)] = self.find(y)

    def begin_obligation(self, pc):
        ids = tuple(t.get_id() for t in pc)
        self.cut_uf = {}
        for (pids, x, y) in self.cut_merges:
            if len(pids) <= len(ids) and ids[:len(pids)] == pids:
                self.cut_uf[self.find(x)] = self.find(y)

    def find(self, cid):
        while self.cut_uf.get(cid, cid) != cid:
            cid = self.cut_uf[cid]
        return cid

    def cuts_in(self, t):
        k0 = t.get_id()
        r = self.cuts_memo.get(k0)
        if r is not None:
            return r
        seen = set()
        out = []
        stack = [t]
        cv = self.ex.fc.cutvars
        while stack:
            x = stack.pop()
            i = x.get_id()
            if i in seen:
                continue
            seen.add(i)
            if i in cv:
                out.append(i)
            elif z3.is_bv(x):
                continue      # bit-vector terms never contain real-valued cut variables
            else:
                stack.extend(x.children())
        self.cuts_memo[k0] = out
        pin(t)
        return out

    def unify_cuts(self, pc, ta, tb):
        """try to prove cuts occurring only on one side equal to cuts of the other side"""
        cv = self.ex.fc.cutvars
        ca = [self.find(c) for c in self.cuts_in(ta)]
        cb = [self.find(c) for c in self.cuts_in(tb)]
        sa, sb = set(ca), set(cb)
        only_a = [c for c in dict.fromkeys(ca) if c not in sb]
        only_b = [c for c in dict.fromkeys(cb) if c not in sa]
        for x in only_a:
            ivx = cv[x][1]
            vx = self.int_varset(ivx)
            cands = sorted([y for y in only_b if self.find(y) != self.find(x)],
                           key=lambda y: (self.int_varset(cv[y][1]) != vx))
            tried = 0
            for y in cands:
                if self.int_varset(cv[y][1]) != vx and tried >= 3:
                    break
                tried += 1
                self.last_unmatched = None
                r, m_ = self.prove_int_equal(pc, ivx, cv[y][1])
                if os.environ.get('DBG'):
                    print('unify', cv[x][0], cv[y][0], r, 'terms', len(getattr(ivx, 'terms', {})), len(getattr(cv[y][1], 'terms', {})),
                          'unmatched:', str(self.last_unmatched)[:600] if r != 'unsat' else '')
                if r == 'sat' and m_ is not None and len(cands) == 1:
                    # the only possible partner differs for some input: that input is a candidate counterexample
                    self.witness = m_
                if r == 'unsat':
                    self.merge_cuts(pc, x, y)
                    only_b.remove(y)
                    break

    def unify_all(self, pc, t):
        """identify equal cuts among those occurring in t (same variable sets first)"""
        cv = self.ex.fc.cutvars
        groups = {}
        for c in dict.fromkeys(self.find(c) for c in self.cuts_in(t)):
            groups.setdefault(self.int_varset(cv[c][1]), []).append(c)
        for vs, cs in groups.items():
            reps = []
            for c in cs:
                merged = False
                for r in reps:
                    if self.find(r) == self.find(c):
                        merged = True
                        break
                    iv1, iv2 = cv[c][1], cv[r][1]
                    if isinstance(iv1, GSum) and isinstance(iv2, GSum):
                        if iv1.range(True) != iv2.range(True) and len(iv1.terms) != len(iv2.terms):
                            continue
                    v, _ = self.prove_int_equal_fast(pc, iv1, iv2)
                    if v:
                        self.merge_cuts(pc, c, r)
                        merged = True
                        break
                if not merged:
                    reps.append(c)

    def prove_int_equal_fast(self, pc, a, b, w=64):
        """syntactic difference or increment matching only (no monolithic fallback)"""
        ga, gb = gs_from(a, w), gs_from(b, w)
        if ga is None or gb is None:
            return False, None
        d = gs_add(ga, gb, -1)
        if isinstance(d, int):
            return canon(d, w, False) == 0, None
        return self.match_increments(pc, d), None

    def int_varset(self, iv):
        if isinstance(iv, GSum):
            s = set()
            for g, c in iv.terms.values():
                s |= self.varset(g)
            return frozenset(s)
        return self.varset(iv)

    def subst_cuts(self, t):
        cv = self.ex.fc.cutvars
        subs = []
        for c in self.cuts_in(t):
            r = self.find(c)
            if r != c:
                subs.append((cv[c][0], cv[r][0]))
        if subs:
            t = z3.substitute(t, *subs)
        return t

    def cut_ranges(self, t):
        cv = self.ex.fc.cutvars
        cons = []
        for c in self.cuts_in(t):
            rv, iv = cv[c]
            if isinstance(iv, GSum):
                rng = iv.range(True)
                if rng is not None:
                    cons.append(rv >= rng[0])
                    cons.append(rv <= rng[1])
                    continue
            cons.append(rv >= -(2 ** 53))
            cons.append(rv <= 2 ** 53)
        return cons

    def var_ranges(self, terms, extra):
        cv = self.ex.fc.cutvars
        rng = {}
        for t in terms:
            for c in self.cuts_in(t):
                rv, iv = cv[c]
                if isinstance(iv, GSum):
                    r = iv.range(True)
                    if r is not None:
                        rng[rv.get_id()] = (Fraction(r[0]), Fraction(r[1]))
        # delta variables |d| <= lim come as pairs of constraints d <= lim, d >= -lim
        lo, hi = {}, {}
        for c in extra:
            if not isinstance(c, z3.ExprRef) or c.num_args() != 2:
                continue
            a0, a1 = c.arg(0), c.arg(1)
            le, ge = z3.is_le(c), z3.is_ge(c)
            if z3.is_rational_value(a0) or z3.is_int_value(a0):
                a0, a1 = a1, a0
                le, ge = ge, le
            if not (z3.is_const(a0) and a0.decl().kind() == z3.Z3_OP_UNINTERPRETED and (z3.is_rational_value(a1) or z3.is_int_value(a1))):
                continue
            val = a1.as_fraction()
            if le:
                hi[a0.get_id()] = min(val, hi.get(a0.get_id(), val))
            elif ge:
                lo[a0.get_id()] = max(val, lo.get(a0.get_id(), val))
        for k in lo:
            if k in hi:
                rng[k] = (lo[k], hi[k])
        return rng

    def link_of(self, rv, iv):
        """the integer meaning of a cut variable. Linear forms are linked in real arithmetic over their guards (no
        bit-vector/integer bridging, which z3 handles unreliably); other bit-vector values through bv2int"""
        if isinstance(iv, GSum) and iv.range(True) is not None:
            acc = z3.RealVal(canon(iv.const, iv.w, True))
            for g, c in iv.terms.values():
                acc = acc + z3.If(g, z3.RealVal(canon(c, iv.w, True)), z3.RealVal(0))
            return rv == acc
        return rv == z3.ToReal(z3.BV2Int(tobv(iv, 64), True))

    def cut_links(self, t):
        cv = self.ex.fc.cutvars
        cons = []
        for c in self.cuts_in(t):
            rv, iv = cv[c]
            cons.append(self.link_of(rv, iv))
        return cons

    # ------------------------------------------------------------ float closeness
    def uf_apps(self, t):
        """outermost applications of library UFs in t, DFS order (deduplicated)"""
        names = set(self.ex.fc.ufs)
        out = []
        seen = set()

        def rec(x):
            i = x.get_id()
            if i in seen:
                return
            seen.add(i)
            if z3.is_app(x) and x.decl().kind() == z3.Z3_OP_UNINTERPRETED and x.decl().name() in names and x.num_args() > 0:
                out.append(x)
                return
            for c in x.children():
                rec(c)
        rec(t)
        return out

    def close_terms(self, pc, ta, tb, tol, depth=0):
        """prove |ta - tb| <= tol (tol Fraction; 0 = exact). returns (verdict, model)"""
        if ta.eq(tb):
            self.stats['syntactic'] += 1
            return 'unsat', None
        side = list(self.ex.fc.side)
        aa, ab = self.uf_apps(ta), self.uf_apps(tb)
        subs_a, subs_b, extra = [], [], []
        # applications that are literally the same term on both sides share one variable
        ida = {x.get_id() for x in aa}
        common = [x for x in ab if x.get_id() in ida]
        if common:
            cs = [(x, z3.Real('ufc!%d!%d' % (depth, i))) for i, x in enumerate(common)]
            ta = z3.substitute(ta, *cs)
            tb = z3.substitute(tb, *cs)
            cid = {x.get_id() for x in common}
            aa = [x for x in aa if x.get_id() not in cid]
            ab = [x for x in ab if x.get_id() not in cid]
        if aa or ab:
            paired = len(aa) == len(ab) and all(x.decl().name() == y.decl().name() for x, y in zip(aa, ab))
            if paired:
                for k, (x, y) in enumerate(zip(aa, ab)):
                    name = x.decl().name()
                    exact_all = True
                    argtol = ARGTOL
                    mirrored = False
                    for i in range(x.num_args()):
                        if x.arg(i).eq(y.arg(i)):
                            continue
                        want = Fraction(0) if ((name, i) in EXACT_ARGS or name not in LIPS or tol == 0) else min(ARGTOL, Fraction(tol) / (2 * LIPS[name]))
                        argtol = want if want != 0 else argtol
                        v, m = self.close_terms(pc, x.arg(i), y.arg(i), want, depth + 1)
                        if v != 'unsat' and name in ('erfc', 'erf'):
                            # erfc(-v) = 2 - erfc(v), erf(-v) = -erf(v)
                            v2, m2 = self.close_terms(pc, x.arg(i), -y.arg(i), want, depth + 1)
                            if v2 == 'unsat':
                                mirrored = True
                                v = 'unsat'
                        if v != 'unsat':
                            return v, m
                        if want != 0:
                            exact_all = False
                    u = z3.Real('uf!%d!%d' % (depth, k))
                    subs_b.append((y, u))
                    if mirrored:
                        ux = (2 - u) if name == 'erfc' else (-u)
                        if exact_all:
                            subs_a.append((x, ux))
                        else:
                            dlt = z3.Real('ufd!%d!%d' % (depth, k))
                            lim = realq(LIPS[name] * argtol)
                            extra += [dlt <= lim, dlt >= -lim]
                            subs_a.append((x, ux + dlt))
                    elif exact_all:
                        subs_a.append((x, u))
                    else:
                        dlt = z3.Real('ufd!%d!%d' % (depth, k))
                        lim = realq(LIPS[name] * argtol)
                        extra += [dlt <= lim, dlt >= -lim]
                        subs_a.append((x, u + dlt))
                ta2 = z3.substitute(ta, *subs_a) if subs_a else ta
                tb2 = z3.substitute(tb, *subs_b) if subs_b else tb
            else:
                ta2, tb2 = ta, tb
        else:
            ta2, tb2 = ta, tb
        ta2 = z3.simplify(ta2)
        tb2 = z3.simplify(tb2)
        if ta2.eq(tb2):
            self.stats['syntactic'] += 1
            return 'unsat', None
        # fast path: normalise the difference to a sum of monomials and bound it by interval arithmetic
        if tol != 0:
            try:
                diff = z3.simplify(ta2 - tb2, som=True)
                rng = self.var_ranges([ta2, tb2], extra + [x for x in pc if isinstance(x, z3.ExprRef)])
                iv = interval(diff, rng, {})
                if iv is not None and max(abs(iv[0]), abs(iv[1])) <= Fraction(tol):
                    self.stats['interval'] = self.stats.get('interval', 0) + 1
                    return 'unsat', None
            except z3.Z3Exception:
                pass
        if tol == 0:
            neq = [ta2 != tb2]
        else:
            tq = realq(Fraction(tol))
            neq = [z3.Or(ta2 - tb2 > tq, tb2 - ta2 > tq)]
        base = side + extra + self.cut_ranges(ta2) + self.cut_ranges(tb2) + list(self.ex.fc.real_assumes)
        base += [d != 0 for d in self.ex.fdivs]
        if self.split_cuts(ta2, tb2, base, neq, limit=128):
            return 'unsat', None
        res, m = self.check(base + neq, want_model=True)
        if res == z3.unsat:
            return 'unsat', None
        if self.split_cuts(ta2, tb2, base, neq):
            return 'unsat', None
        # second attempt with the path condition and the bit-level meaning of the cuts
        res2, m2 = self.check(list(pc) + base + self.cut_links(ta2) + self.cut_links(tb2) + neq, want_model=True)
        if res2 == z3.unsat:
            return 'unsat', None
        if res2 == z3.sat and (subs_a or subs_b):
            # the abstraction of library calls by fresh variables loses congruence: re-check with the calls intact
            if tol == 0:
                neq3 = [ta != tb]
            else:
                neq3 = [z3.Or(ta - tb > tq, tb - ta > tq)]
            base3 = side + self.cut_ranges(ta) + self.cut_ranges(tb) + list(self.ex.fc.real_assumes) + [d != 0 for d in self.ex.fdivs]
            res3, m3 = self.check(list(pc) + base3 + self.cut_links(ta) + self.cut_links(tb) + neq3, want_model=True)
            if res3 == z3.unsat:
                return 'unsat', None
            if res3 == z3.sat:
                return 'sat', m3
            return 'unknown', m2
        if res2 == z3.sat:
            return 'sat', m2
        return ('sat-abstract' if res == z3.sat else 'unknown'), m

    def split_cuts(self, ta, tb, base, neq, limit=512):
        """case split of one tolerance query over the INTEGER values of its cut variables (counts with small ranges): each case
        is linear/constant after substitution. True iff every case is unsat (sound: cuts of linear forms are integer-valued and
        the cases cover their whole range)."""
        cv = self.ex.fc.cutvars
        cs = []
        tot = 1
        if os.environ.get('DBG'):
            print('split_cuts', limit, self.cuts_in(ta), self.cuts_in(tb), list(cv.keys())[:5], str(ta)[:300])
        for c in sorted(set(self.cuts_in(ta)) | set(self.cuts_in(tb))):
            rv, iv = cv[c]
            r = iv.range(True) if isinstance(iv, GSum) else None
            if os.environ.get('DBG'): print('split', rv, type(iv), r)
            if r is None:
                return False
            tot *= (r[1] - r[0] + 1)
            if tot > limit:
                return False
            cs.append((rv, r))
        if not cs:
            return False
        import itertools
        t0 = time.time()
        for vals in itertools.product(*[range(r[0], r[1] + 1) for _, r in cs]):
            sub = [(rv, z3.RealVal(v)) for (rv, _), v in zip(cs, vals)]
            q = [z3.simplify(z3.substitute(x, *sub)) for x in base + neq if isinstance(x, z3.ExprRef)]
            if any(z3.is_false(x) for x in q):
                continue
            r_, _m = self.check(q, timeout=3000)
            if r_ != z3.unsat:
                return False
            if time.time() - t0 > 60:
                return False
        self.stats['cut_splits'] = self.stats.get('cut_splits', 0) + 1
        return True

    def decompose_cuts(self, t):
        """a count that is literally the sum of other counts of the same term (T = sum of b[i] + g[i]: the same guarded
        increments, added once more) is replaced by that sum, so that it needs no matching of its own"""
        cv = self.ex.fc.cutvars
        cs = [c for c in self.cuts_in(t) if isinstance(cv[c][1], GSum) and cv[c][1].terms]
        if len(cs) < 3:
            return t
        cs.sort(key=lambda c: -len(cv[c][1].terms))
        subs = []
        for x in cs:
            ivx = cv[x][1]
            if len(ivx.terms) < 8:
                break
            mask = (1 << ivx.w) - 1
            rest = {k: (c & mask) for k, (g, c) in ivx.terms.items()}
            const = ivx.const
            parts = []
            for y in cs:
                ivy = cv[y][1]
                if y == x or ivy.w != ivx.w or len(ivy.terms) >= len(ivx.terms) or len(ivy.terms) > len(rest):
                    continue
                if all(rest.get(k) == (c & mask) for k, (g, c) in ivy.terms.items()):
                    for k in ivy.terms:
                        del rest[k]
                    const -= ivy.const
                    parts.append(y)
                    if not rest:
                        break
            rs = [cv[y][1].range(True) for y in parts] + [ivx.range(True)]
            if any(r is None for r in rs) or sum(max(abs(r[0]), abs(r[1])) for r in rs) >= 2 ** 62:
                continue      # the identity holds mod 2^w only; without small ranges it need not hold over the integers
            if not rest and len(parts) >= 2:
                acc = z3.RealVal(canon(const, ivx.w, True))
                for y in parts:
                    acc = acc + cv[y][0]
                subs.append((cv[x][0], acc))
                self.stats['decomposed'] = self.stats.get('decomposed', 0) + 1
        if subs:
            t = z3.substitute(t, *subs)
        return t

    def close(self, obl):
        a, b, tol = obl.extra
        fc = self.ex.fc
        a, b = force(a), force(b)
        if isinstance(a, float) and isinstance(b, float):
            import math
            ok = (math.isnan(a) and math.isnan(b)) or abs(a - b) <= tol
            return ('unsat' if ok else 'sat'), None
        ta, tb = to_real(fc, a), to_real(fc, b)
        pc = obl.pc
        self.witness = None
        # cheap structural mismatch first: the same library function applied to different constant shape arguments
        # (e.g. igamc with another number of degrees of freedom) is a definite difference, whatever the counts are
        xa, xb = self.uf_apps(ta), self.uf_apps(tb)
        if len(xa) == len(xb) == 1 and xa[0].decl().name() == xb[0].decl().name():
            nm = xa[0].decl().name()
            for i in range(xa[0].num_args()):
                if (nm, i) in EXACT_ARGS:
                    p_, q_ = z3.simplify(xa[0].arg(i)), z3.simplify(xb[0].arg(i))
                    if z3.is_rational_value(p_) and z3.is_rational_value(q_) and p_.as_fraction() != q_.as_fraction():
                        r0, m0 = self.check(list(pc), want_model=True)
                        if r0 == z3.sat:
                            return 'sat', m0
        ta, tb = self.decompose_cuts(ta), self.decompose_cuts(tb)
        self.unify_cuts(pc, ta, tb)
        ta, tb = self.subst_cuts(ta), self.subst_cuts(tb)
        v, m = self.close_terms(pc, ta, tb, Fraction(tol))
        if v in ('sat-abstract', 'unknown') and self.witness is not None:
            # the tail comparison is open, but two counts that must be equal differ for a concrete input: replay that one
            return 'sat', self.witness
        return v, m

    def uf_axioms(self, asserts):
        """erfc: range [0,2], erfc(x) <= 1 for x >= 0, erfc(-x) = 2 - erfc(x), decreasing; erf: odd, range [-1,1];
        igamc: range [0,1] (assumption: its accuracy is property C06, not verified); cabs >= 0"""
        apps = {}
        for a in asserts:
            if isinstance(a, z3.ExprRef):
                for x in self.all_uf_apps(a):
                    apps.setdefault(x.get_id(), x)
        ax = []
        byname = {}
        for x in apps.values():
            byname.setdefault(x.decl().name(), []).append(x)
        for x in byname.get('erfc', []):
            ax += [x >= 0, x <= 2, z3.Implies(x.arg(0) >= 0, x <= 1), z3.Implies(x.arg(0) <= 0, x >= 1)]
        es = byname.get('erfc', [])
        for i in range(len(es)):
            for j in range(i + 1, len(es)):
                a, b = es[i], es[j]
                ax += [z3.Implies(a.arg(0) == -b.arg(0), a == 2 - b), z3.Implies(a.arg(0) <= b.arg(0), a >= b),
                       z3.Implies(a.arg(0) >= b.arg(0), a <= b)]
        for x in byname.get('erf', []):
            ax += [x >= -1, x <= 1]
        for x in byname.get('igamc', []):
            ax += [x >= 0, x <= 1]
        for x in byname.get('cabs', []):
            ax += [x >= 0]
        return ax

    def all_uf_apps(self, t):
        names = set(self.ex.fc.ufs)
        out = []
        seen = set()
        stack = [t]
        while stack:
            x = stack.pop()
            i = x.get_id()
            if i in seen:
                continue
            seen.add(i)
            if z3.is_bv(x):
                continue
            if z3.is_app(x) and x.decl().kind() == z3.Z3_OP_UNINTERPRETED and x.decl().name() in names and x.num_args() > 0:
                out.append(x)
            stack.extend(x.children())
        return out

    # ------------------------------------------------------------ driver
    def discharge(self, obl):
        self.begin_obligation(obl.pc)
        t0 = time.time()
        q0 = self.stats['queries']
        kind = obl.kind
        if kind == 'reach':
            r, m = self.check(list(obl.pc), timeout=max(self.timeout, 90000))
            v = 'reach-ok' if r == z3.sat else ('reach-fail' if r == z3.unsat else 'unknown')
            return Result(obl, v, '', None, time.time() - t0, self.stats['queries'] - q0)
        if kind == 'close':
            v, m = self.close(obl)
            return Result(obl, v, '', m, time.time() - t0, self.stats['queries'] - q0)
        cond = obl.cond
        if cond is False:
            return Result(obl, 'unsat', 'trivial', None, 0.0, 0)
        if isinstance(cond, z3.ExprRef):
            # violation condition Not(eq) with increment-matching metadata
            inner = cond.arg(0) if z3.is_not(cond) else None
            info = _vals._guard_info.get(inner.get_id()) if inner is not None else None
            if info is not None and info[0] == 'eqz':
                if self.match_increments(obl.pc, info[1]):
                    return Result(obl, 'unsat', 'increment matching', None, time.time() - t0, self.stats['queries'] - q0)
        if isinstance(cond, z3.ExprRef) and self.cuts_in(cond):
            # counts computed twice (implementation / reference model) are identified first
            self.unify_all(obl.pc, cond)
            cond = self.subst_cuts(cond)
            cond = z3.simplify(cond)
            if z3.is_false(cond):
                return Result(obl, 'unsat', 'after cut unification', None, time.time() - t0, self.stats['queries'] - q0)
        pcl = list(obl.pc)
        if any(self.cuts_in(x) for x in pcl):
            for x in pcl:
                if self.cuts_in(x):
                    self.unify_all(obl.pc, x)
            pcl = [self.subst_cuts(x) for x in pcl]
        asserts = pcl + ([] if cond is True else [cond])
        cuts = []
        for a in asserts:
            cuts += self.cuts_in(a)
        if cuts:
            cv = self.ex.fc.cutvars
            for c in set(cuts):
                rv, iv = cv[c]
                asserts.append(self.link_of(rv, iv))
            asserts += self.ex.fc.side
        # axioms of the uninterpreted library functions, instantiated on the applications that occur
        asserts = asserts + self.uf_axioms(asserts)
        # first try with every library-function application abstracted by a fresh variable (identical applications share
        # one variable): unsat of the abstraction implies unsat of the original
        if self.ex.fc.ufs:
            apps = {}
            for a in asserts:
                if isinstance(a, z3.ExprRef):
                    for x in self.uf_apps(a):
                        apps.setdefault(x.get_id(), x)
            if apps:
                subs = [(x, z3.Real('ufa!%d' % i)) for i, x in apps.items()]
                abs_asserts = [z3.substitute(a, *subs) if isinstance(a, z3.ExprRef) else a for a in asserts]
                r, m = self.check(abs_asserts)
                if r == z3.unsat:
                    return Result(obl, 'unsat', 'uf-abstraction', None, time.time() - t0, self.stats['queries'] - q0)
        r, m = self.check(asserts, want_model=True)
        if r == z3.unknown and kind == 'assert':
            m2 = self.guided_witness(asserts)
            if m2 is not None:
                return Result(obl, 'sat', 'guided', m2, time.time() - t0, self.stats['queries'] - q0)
        return Result(obl, str(r), '', m, time.time() - t0, self.stats['queries'] - q0)

    def guided_witness(self, asserts, budget=90.0):
        """the general query timed out: look for a violating input with the harness's small-range integer and boolean
        inputs pinned to boundary / middle / pseudo-random values (under-approximating queries: any model is a genuine model
        of the original query and is replayed natively like every other one). Finding nothing proves nothing."""
        import itertools, random
        ir = getattr(self.ex, 'int_ranges', {})
        if not ir:
            return None
        rnd = random.Random(12345)
        dims = []
        for name, (v, lo, hi) in sorted(ir.items()):
            cand = {lo, hi, (lo + hi) // 2, min(hi, lo + 1), max(lo, hi - 1)}
            for _ in range(3):
                cand.add(rnd.randint(lo, hi))
            dims.append([(v, c) for c in sorted(cand)])
        for kind, b in self.ex.inputs:
            if kind == 'bool' and z3.is_const(b) and str(b).startswith('b') and len(dims) < 6:
                dims.append([(b, True), (b, False)])
        combos = list(itertools.product(*dims))
        rnd.shuffle(combos)
        t0 = time.time()
        for combo in combos[:200]:
            if time.time() - t0 > budget:
                break
            pins = [(v == c) if not isinstance(c, bool) else (v if c else z3.Not(v)) for v, c in combo]
            r, m = self.check(pins + asserts, timeout=4000, want_model=True)
            if r == z3.sat:
                self.stats['guided'] = self.stats.get('guided', 0) + 1
                return m
        return None


def zero_divisor_candidates(ex, d, pc, limit=4):
    """inputs for which a float divisor of the executed code is zero (the real-arithmetic model is silent there:
    IEEE gives Inf or NaN): solver-found witnesses that are replayed natively as candidates"""
    out = []
    cv = ex.fc.cutvars
    for div in ex.fdivs[:16]:
        cuts = d.cuts_in(div)
        cons = [div == 0] + d.cut_ranges(div) + [z3.IsInt(cv[c][0]) for c in cuts]
        r, m = d.check(cons, timeout=10000, want_model=True)
        if r != z3.sat:
            continue
        bvc = list(pc)
        for c in cuts:
            rv, iv = cv[c]
            val = m.eval(rv, model_completion=True)
            try:
                bvc.append(tobv(iv, 64) == z3.BitVecVal(int(val.as_fraction()), 64))
            except Exception:
                pass
        r2, m2 = d.check(bvc, timeout=20000, want_model=True)
        if r2 == z3.sat:
            out.append(m2)
        if len(out) >= limit:
            break
    return out


def model_record(ex, model, harness, params):
    """replay record from a z3 model (missing values default to 0/false)"""
    inputs = []
    for kind, v in ex.inputs:
        if kind in ('bits', 'bytes'):
            s = ''
            rnd = __import__('random').Random(len(inputs) * 7919 + len(v))
            for b in v:
                val = model[b] if model is not None else None
                if val is None:
                    # unconstrained by the counterexample: any value will do; a pseudo-random one is the most generic
                    s += '1' if rnd.random() < 0.5 else '0'
                else:
                    s += '1' if z3.is_true(val) else '0'
            inputs.append({'kind': kind, 'bits': s})
        elif kind == 'bool':
            val = model[v] if model is not None else None
            if val is None:
                b = __import__('random').Random(len(inputs) * 104729 + 17).random() < 0.5    # unconstrained: any value will do
            else:
                b = bool(z3.is_true(val))
            inputs.append({'kind': 'bool', 'b': b})
        elif kind == 'int':
            val = model.eval(v, model_completion=True).as_signed_long() if model is not None else 0
            inputs.append({'kind': 'int', 'i': val})
        elif kind == 'float':
            if model is None:
                f = 0.0
            elif z3.is_fp(v):
                import struct
                bv = z3.simplify(z3.fpToIEEEBV(model.eval(v, model_completion=True)))
                f = struct.unpack('>d', struct.pack('>Q', bv.as_long()))[0]
            else:
                val = model.eval(v, model_completion=True)
                try:
                    f = float(val.as_fraction())
                except Exception:
                    f = float(val.approx(20).as_fraction())
            inputs.append({'kind': 'float', 'f': f})
    return {'harness': harness, 'params': list(params), 'inputs': inputs}
