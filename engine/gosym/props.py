"""Property table: which harness instances (jobs) decide each property, per tier."""


def J(pkg, harness, params, **opts):
    return {'pkg': pkg, 'harness': harness, 'params': list(params), 'opts': opts}


def c01_jobs(tier):
    q = tier == 'quick'
    jobs = [J('root', 'H_C01_selectM', [])]
    for n in range(1, (24 if q else 64) + 1):
        jobs.append(J('root', 'H_C01_monobit', [n]))
    for nb in range(1, (4 if q else 8) + 1):
        jobs.append(J('root', 'H_C01_monobit_bytes', [nb]))
    nmax = 20 if q else 40
    for n in range(2, nmax + 1):
        for m in range(2, n + 1):
            if q and m > 12 and m not in (n, n - 1):
                continue
            jobs.append(J('root', 'H_C01_blockfreq', [n, m]))
    for n in (10, 19, 20, 25, 31) if q else range(10, 64):
        jobs.append(J('root', 'H_C01_blockfreq_auto', [n]))
    for m in (2, 4, 8):
        for n in range(8, (24 if q else 64) + 1):
            jobs.append(J('root', 'H_C01_poker', [n, m]))
        for nb in range(1, (4 if q else 8) + 1):
            jobs.append(J('root', 'H_C01_poker_bytes', [nb, m]))
    for m in (2, 3, 5, 7):
        for n in range(max(5, m), (16 if q else 32) + 1):
            jobs.append(J('root', 'H_C01_overlapping', [n, m]))
    for m in (2, 5, 7):
        for n in range(1, (16 if q else 32) + 1):
            jobs.append(J('root', 'H_C01_apen', [n, m]))
    return jobs


def c02_jobs(tier):
    q = tier == 'quick'
    jobs = [J('root', 'H_C02_selectParameters', [])]
    for n in range(2, (32 if q else 64) + 1):
        jobs.append(J('root', 'H_C02_runs', [n]))
    for n in range(1, 9):
        for bit in (0, 1):
            jobs.append(J('root', 'H_C02_runs_const', [n, bit]))
    for n in ((100, 101, 128, 160) if q else (100, 101, 102, 103, 110, 128, 159, 160, 161, 165, 320, 321, 322)):
        jobs.append(J('root', 'H_C02_runsdist', [n], timeout_ms=120000))
    for n in ((128, 131, 136) if q else (128, 129, 130, 131, 135, 136, 137, 144)):
        for one in (1, 0):
            jobs.append(J('root', 'H_C02_longestrun', [n, one]))
    jobs.append(J('root', 'PY:longest_run_tables', []))
    return jobs


def c03_jobs(tier):
    q = tier == 'quick'
    jobs = []
    nmax = 32 if q else 64
    for k in (3, 7, 15):
        for n in range(max(8, k + 1), nmax + 1):
            if q and n % 2 and n > 20:
                continue
            jobs.append(J('root', 'H_C03_binderiv', [n, k]))
    for d in (1, 2, 8, 16, 32):
        for n in range(max(16, d + 1), nmax + 1):
            if q and n % 2 and n > 20:
                continue
            jobs.append(J('root', 'H_C03_autocorr', [n, d]))
    cmax = 16 if q else 20      # n >= 22 leaves occasional `unknown`s within the per-query time-out: not registered
    for n in range(1, cmax + 1):
        jobs.append(J('root', 'H_C03_cusum_cases', [n]))
        for fwd in (1, 0):
            for z in range(1, n + 1):
                jobs.append(J('root', 'H_C03_cusum', [n, fwd, z], pin_consts=True))
    for n in ((100, 128, 1000) if q else (100, 101, 128, 1000, 4096)):
        for first in (0, 1):
            for fwd in (1, 0):
                jobs.append(J('root', 'H_C03_cusum_alt', [n, first, fwd]))
    # long series: small excursions at larger n (n/Z up to 100 terms)
    for n in ((34, 36, 40) if q else (34, 36, 40, 48, 64)):
        for fwd in (1, 0):
            for z in ((1,) if q else (1, 2)):
                jobs.append(J('root', 'H_C03_cusum', [n, fwd, z], pin_consts=True, timeout_ms=120000))
    return jobs


def c04_jobs(tier):
    q = tier == 'quick'
    jobs = []
    for M in range(1, (9 if q else 12) + 1):
        jobs.append(J('root', 'H_C04_lc_block', [M]))
    for M in ((10, 12, 14) if q else (13, 14, 16, 18, 20)):
        jobs.append(J('root', 'H_C04_lc_crash', [M]))
    for m in ((3, 4, 5, 6) if q else (2, 3, 4, 5, 6, 7, 8)):
        for n in (m, 2 * m, 2 * m + 1, 3 * m - 1):
            jobs.append(J('root', 'H_C04_lc_proto', [n, m]))
    for m in ((2, 3) if q else (2, 3, 4)):
        for n in ((m * m, m * m + 1, 2 * m * m, 2 * m * m + 3) if m < 4 else (16, 17)):      # 4x4 with two matrices: counts not paired in time
            jobs.append(J('root', 'H_C04_rank', [n, m]))
    if q:
        for lo in (0, 42, 85, 124):
            jobs.append(J('root', 'H_C04_maurer', [8967, lo, lo + 3], timeout_ms=120000, job_timeout_s=2400))
    else:
        for n in (8967, 8970):     # K=2 (n=8974) takes > 20 min per group of 8 values: outside the registered bound
            for lo in range(0, 128, 8):
                jobs.append(J('root', 'H_C04_maurer', [n, lo, lo + 7], timeout_ms=120000, job_timeout_s=5400))
    return jobs


def c12_jobs(tier):
    q = tier == 'quick'
    jobs = [J('detect', 'H_C12_threshold_values', [])]
    step = 64
    top = 1024 if q else 16384
    lo = 1
    while lo <= top:
        hi = min(top, lo + step - 1)
        jobs.append(J('detect', 'H_C12_threshold', [lo, hi], fp_mode=True, timeout_ms=(60000 if q else 300000)))
        lo = hi + 1
        if lo > 1024:
            step = 256
    for n in (list(range(1, 13)) + [20, 50]) if q else (list(range(1, 21)) + [50, 100, 200]):
        jobs.append(J('detect', 'H_C12_thresholdQ', [n]))
    for n in ((2, 3, 5, 8) if q else (2, 3, 4, 5, 8, 12, 20)):
        for i in range(n - 1):
            jobs.append(J('detect', 'H_C12_thresholdQ_swap', [n, i]))
    # the same comparison with bit-precise binary64 Q-values (bin edges under IEEE rounding)
    for n in ((1, 2) if q else (1, 2, 3, 4)):
        jobs.append(J('detect', 'H_C12_thresholdQ', [n], fp_inputs=True))
    return jobs


def c07_jobs(tier):
    jobs = [J('detect', 'H_C07_workflow', [w], stubs=['fast', 'tq_summary'], timeout_ms=180000) for w in (2, 1, 0)]
    if tier != 'quick':
        # the real ThresholdQ and the definitional ten-bin statistic executed inside the workflow (no summary)
        jobs.append(J('detect', 'H_C07_workflow', [2], stubs=['fast'], timeout_ms=600000))
    return jobs


def c11_jobs(tier):
    return [J('detect', 'H_C11_single', [], stubs=['single'])]


def c08_jobs(tier):
    jobs = [J('detect', 'H_C08_fast', [w], stubs=['fast', 'tq_summary'], timeout_ms=180000, race=True) for w in (2, 1, 0)]
    jobs += [J('detect', 'H_C08_worker_step', [20, 12], stubs=['fast']), J('detect', 'H_C08_worker_step', [20, 15], stubs=['fast']),
             J('detect', 'H_C08_worker_step', [50, 15], stubs=['fast'])]
    if tier != 'quick':
        jobs.append(J('detect', 'H_C08_fast', [2], stubs=['fast'], timeout_ms=600000))
    return jobs


def c09_jobs(tier):
    jobs = []
    for w in (2, 1, 0):
        jobs.append(J('detect', 'H_C09_seq', [w], stubs=['fast', 'tq_summary']))
        jobs.append(J('detect', 'H_C09_fast', [w], stubs=['fast', 'tq_summary']))
    jobs.append(J('detect', 'H_C09_single', [], stubs=['single']))
    return jobs


def c10_jobs(tier):
    jobs = []
    for w in (2, 1, 0):
        for fast in (0, 1):
            jobs.append(J('detect', 'H_C10_chunked', [w, fast], stubs=['fast', 'tq_summary']))
    return jobs


def c15_jobs(tier):
    q = tier == 'quick'
    jobs = [J('root', 'H_C15_b2bit', [])]
    for nb in range(1, (4 if q else 8) + 1):
        jobs.append(J('root', 'H_C15_b2bitarr', [nb]))
        jobs.append(J('root', 'H_C15_readgroup', [nb], stubs=['files']))
    for nb in range(1, (6 if q else 12) + 1):
        jobs.append(J('root', 'H_C15_bytes_vs_bits', [nb]))
    for nb in ((2, 3) if q else (2, 3, 4, 5)):
        jobs.append(J('root', 'H_C15_testbytes', [nb]))
    for nb in ((1200,) if q else (128, 1200, 1250)):
        jobs.append(J('root', 'H_C15_defaults', [nb], stubs=['lib_summaries']))
        jobs.append(J('detect', 'H_C15_rounds', [nb], stubs=['runner_summaries']))
    return jobs


def c17_jobs(tier):
    q = tier == 'quick'
    jobs = []

    def H(test, par, par2, tr, a, b, n, qflip=0, z=0, **kw):
        jobs.append(J('root', 'H_C17', [test, par, par2, tr, a, b, n, qflip, z], **kw))
    nm = 12 if q else 24
    # ---- complement
    for n in range(1, nm + 1):
        H(0, 0, 0, 0, 0, 0, n, qflip=1)
    for n in range(2, nm + 1):
        H(4, 0, 0, 0, 0, 0, n)
    for m in (2, 3, 5):
        for n in (m, 2 * m + 1, 12, 13) if q else range(m, nm + 1):
            H(1, m, m, 0, 0, 0, n)
    for m in (2, 4, 8):
        for n in (8, 12, 16, 17) if q else range(8, nm + 1):
            H(2, m, m, 0, 0, 0, n)
    for m in (2, 3, 5):
        for n in (5, 8, 11) if q else range(5, nm + 1):
            H(3, m, m, 0, 0, 0, n)
            H(3, m, m, 1, 0, 0, n)
    for m in (2, 5):
        for n in (4, 7, 10) if q else (range(2, 17) if m == 2 else range(2, 11)):     # m=5: n > 10 times out
            H(10, m, m, 0, 0, 0, n)
            H(10, m, m, 1, 0, 0, n)
    for k in (3, 7):
        for n in (max(8, k + 2), 12, 16) if q else range(max(8, k + 1), nm + 1):
            H(7, k, k, 0, 0, 0, n)
            H(7, k, k, 1, 0, 0, n)
    for d in (1, 2, 8):
        for n in (16, 19) if q else range(16, nm + 1):
            H(8, d, d, 0, 0, 0, n)
            H(8, d, d, 1, 0, 0, n)
    for n in (128, 131) if q else (128, 129, 131, 136):
        H(6, 1, 0, 0, 0, 0, n)
        H(6, 0, 1, 0, 0, 0, n)
    cn = 8 if q else 14
    for n in range(2, cn + 1):
        for z in range(1, n + 1):
            H(9, 1, 1, 0, 0, 0, n, z=z, pin_consts=True)      # complement, forward
            H(9, 0, 0, 0, 0, 0, n, z=z, pin_consts=True)      # complement, backward
            H(9, 1, 0, 1, 0, 0, n, z=z, pin_consts=True)      # forward on x == backward on reverse(x)
    # ---- reversal of the counting tests
    for n in range(1, nm + 1):
        H(0, 0, 0, 1, 0, 0, n)
    for n in range(2, nm + 1):
        H(4, 0, 0, 1, 0, 0, n)
    # ---- rotation
    for (t, m) in ((3, 3), (3, 5), (10, 2), (10, 5)):
        for n in (8, 11) if q else (8, 11, 16):
            for a in range(1, n):
                H(t, m, m, 2, a, 0, n)
    # ---- whole-block swaps and discarded-tail changes
    for m in (3, 4):
        n = 3 * m + 2
        for a in (0, 1):
            H(1, m, m, 3, a, m, n)
            H(2, 4, 4, 3, a, 4, 14) if m == 4 else None
            H(12, m, m, 3, a, m, n)
        for a in range(3 * m, n):
            H(1, m, m, 4, a, 0, n)
            H(12, m, m, 4, a, 0, n)
    H(2, 4, 4, 4, 12, 0, 14)
    H(2, 4, 4, 4, 13, 0, 14)
    for a in (0, 7, 14):
        H(6, 1, 1, 3, a, 8, 131)
    for a in (128, 129, 130):
        H(6, 1, 1, 4, a, 0, 131)
    H(11, 2, 2, 3, 0, 4, 10)
    H(11, 2, 2, 3, 1, 4, 14)
    H(11, 2, 2, 4, 8, 0, 10)
    H(11, 2, 2, 4, 9, 0, 10)
    if not q:
        H(5, 0, 0, 0, 0, 0, 100, timeout_ms=300000)
        # runs distribution under REVERSAL at n=100 does not finish within the job budget (3000 s): not registered
        H(11, 3, 3, 3, 0, 9, 20)
    return [j for j in jobs if j is not None]


def c18_jobs(tier):
    q = tier == 'quick'
    jobs = []
    cases = [(0, 0, 9), (1, 3, 10), (2, 4, 13), (3, 3, 9), (4, 0, 9), (6, 1, 130), (6, 0, 128), (7, 3, 12), (7, 7, 12), (8, 2, 17), (9, 1, 6), (9, 0, 6),
             (10, 2, 8), (11, 2, 9), (11, 3, 19), (12, 4, 9), (12, 5, 11)]
    if not q:
        cases += [(0, 0, 24), (1, 5, 23), (2, 8, 24), (3, 5, 16), (4, 0, 24), (5, 0, 100), (7, 15, 24), (8, 16, 24), (9, 1, 10), (10, 5, 12), (12, 7, 15)]
    for (t, par, n) in cases:
        jobs.append(J('root', 'H_C18_pure', [t, par, n], race=True))
    for which in (0, 1, 2, 3):
        for nb in ((2, 5) if q else (2, 5, 9)):
            jobs.append(J('root', 'H_C18_pure_bytes', [which, nb], race=True))
    for (t, par, n) in [(0, 0, 9), (1, 3, 10), (2, 4, 13), (3, 3, 9), (3, 5, 11), (4, 0, 9), (7, 3, 12), (8, 2, 17), (10, 2, 8), (11, 2, 9), (12, 4, 9)]:
        jobs.append(J('root', 'H_C18_window', [t, par, n, 8], race=True))
    for (t, par, n1, n2, n3) in [(14, 0, 100, 128, 30), (14, 0, 9, 16, 5), (14, 0, 128, 100, 200), (0, 0, 9, 12, 5), (1, 3, 10, 12, 7), (2, 4, 13, 16, 9),
                                 (3, 3, 9, 12, 6), (4, 0, 9, 12, 5), (6, 1, 130, 128, 136), (7, 3, 12, 9, 10), (8, 2, 17, 20, 18), (10, 2, 8, 9, 5),
                                 (11, 2, 9, 13, 4), (12, 4, 9, 13, 5)]:
        jobs.append(J('root', 'H_C18_history', [t, par, n1, n2, n3], stubs=['fft_summary'], race=True))
    return jobs


def c05_jobs(tier):
    q = tier == 'quick'
    jobs = [J('root', 'H_C05_ceilpow2', [])]
    for n in range(2, (32 if q else 64) + 1):
        jobs.append(J('root', 'H_C05_dft', [n], stubs=['fft_summary']))
    return jobs


def c19_jobs(tier):
    q = tier == 'quick'
    jobs = [J('fft', 'H_C19_lastpow2', []), J('fft', 'PY:fft_roots', [])]
    for p in range(1, (8 if q else 10) + 1):
        jobs.append(J('fft', 'H_C19_perm', [p]))
    for N in (2, 3, 5, 8, 12, 100, 1000, 1 << 12):
        jobs.append(J('fft', 'H_C19_new', [N]))
    for N in ((2, 4, 8, 16, 32, 64) if q else (2, 4, 8, 16, 32, 64, 128, 256)):
        jobs.append(J('fft', 'H_C19_transform', [N], linear_normalize=True, timeout_ms=300000))
        jobs.append(J('fft', 'H_C19_inverse', [N], linear_normalize=True, timeout_ms=300000))
    for (N, L) in ((8, 4), (8, 16), (8, 7), (4, 0), (16, 17)):
        for inv in (0, 1):
            jobs.append(J('fft', 'H_C19_wronglen', [N, L, inv], allow_panics=['dimension mismatches', 'Input dimension'], no_reach=True))
    return jobs


def c16_jobs(tier):
    q = tier == 'quick'
    jobs = [J('root', 'H_C16_igamc_edge', [], noigamc=True)] if False else []
    two = [(0, 0), (4, 0), (7, 7), (7, 3), (8, 16), (8, 1), (14, 0)]
    chi = [(1, 10), (2, 4), (2, 8), (3, 5), (10, 5), (10, 2)]
    ns = (100, 101) if q else (100, 101, 102, 104, 128)
    for (t, par) in two:
        for n in ns:
            jobs.append(J('root', 'H_C16_twosided', [t, par, n], stubs=['fft_summary'], fdiv_candidates=True))
    for (t, par) in chi:
        for n in ns[:1] if (q and t in (3, 10)) else ns:
            jobs.append(J('root', 'H_C16_chisquare', [t, par, n], fdiv_candidates=True))
    for n in (128, 130):
        for one in (1, 0):
            jobs.append(J('root', 'H_C16_chisquare', [6, one, n], fdiv_candidates=True))
    for (m, n) in ((2, 9), (3, 19)):
        jobs.append(J('root', 'H_C16_chisquare', [11, m, n]))
    for (m, n) in ((4, 9), (5, 16)):
        jobs.append(J('root', 'H_C16_chisquare', [12, m, n]))
    # small lengths as well (the same code; exposes degenerate divisors)
    for n in ((2, 3, 8) if q else (1, 2, 3, 5, 8, 16)):
        jobs.append(J('root', 'H_C16_twosided', [0, 0, n], fdiv_candidates=True))
        jobs.append(J('root', 'H_C16_twosided', [4, 0, n], fdiv_candidates=True))
    if not q:
        jobs.append(J('root', 'H_C16_chisquare', [5, 0, 100], timeout_ms=300000))
    # Pass flag of every registry runner == (P >= 0.01), overlapping: min(P1,P2) (same harness as C15 defaults)
    jobs.append(J('root', 'H_C15_defaults', [1200], stubs=['lib_summaries']))
    return jobs


def c13_jobs(tier):
    jobs = []
    for sc in ('2E4', '1E6', '1E8'):
        jobs.append(J('rddetector', 'PY:rddetector_columns_' + sc, [], stubs=['tools']))
    jobs.append(J('rddetector', 'PY:rddetector_count', [], stubs=['tools']))
    jobs.append(J('rddetector', 'PY:rddetector_writer', [], stubs=['tools']))
    return jobs


def c20_jobs(tier):
    return [J('rdgen', 'PY:rdgen_files_%d' % i, [], stubs=['tools']) for i in range(6)]


PROPS = {
    'C20': {
        'jobs': c20_jobs,
        'technique': 'symbolic execution of the real main/worker code (go/ssa) with the file-system and flag calls recorded and the random source returning fresh symbolic bytes; the recorded operations are compared with the specification (sequentialised schedule of the writer goroutines)',
        'bounds': {'quick': 'six configurations (s, n, output) = (1,64,default), (3,20000,default), (3,64,/abs/out), (2,20000,rel/nested/dir), (5,64,/x), (2,10^8,/big): files created, names, sizes, directory, Done per job, fresh content per file',
                   'thorough': 'same'},
        'outside': 'the real file system (permissions: directories are created with mode 0600), the actual randomness of crypto/rand, interleavings of the writer goroutines (one schedule), acceptance by the batch detector (its file counting is not modelled), s in the hundreds',
        'assumptions': ['crypto/rand.Reader.Read fills the whole buffer', 'filepath.Abs is path normalisation relative to the working directory', 'os.OpenFile/MkdirAll succeed'],
    },
    'C13': {
        'jobs': c13_jobs,
        'technique': 'solver-style symbolic execution of the real worker code (go/ssa) with every library test an uninterpreted function of (file content, parameters): the term in each report column is compared with the term the header label names (data-flow equality of terms; complete over file contents, no search needed)',
        'bounds': {'quick': 'worker_2E4 / worker_1E6 / worker_1E8 on one file with symbolic content: every one of the 44/64/66 value columns against its header label (test, parameter, P/Q/P1/Q1/P2/Q2), row name, column count; complete for all three scales; toBeTestFileNum over a walk of seven entries with SYMBOLIC kinds (directory/regular) and sizes: sample count and scale inference; resultWriter on three rows (0, 2, 3 column pairs, a name containing % verbs): exact token stream written, one Done per row',
                   'thorough': 'same'},
        'outside': 'the interleavings of walker / workers / writer goroutines and the file-system traversal are NOT modelled (one job, sequentialised); the numeric values (C01-C05); the 6-decimal formatting is read off resultWriter (format constant) only',
        'assumptions': ['ioutil.ReadFile returns the file bytes', 'library tests are pure functions of (data, parameters) (C18)', 'label grammar: "[k] <P|Q|P1|Q1|P2|Q2> <test name> <param>=<value>" as used by all three headers'],
    },
    'C16': {
        'jobs': c16_jobs,
        'bounds': {'quick': 'n in {100,101}: monobit, runs, binary derivative (k=3,7), autocorrelation (d=1,16), DFT (transform summarised): P = 2 min(Q,1-Q), ranges; block frequency, poker (4,8), overlapping (5), approximate entropy (2,5), longest run (128,130): Q = P, ranges; rank 2x2/3x3 and linear complexity m=4,5 at small n; inputs with a zero float divisor are found by the solver and replayed natively (IEEE Inf/NaN behaviour); Pass flag of all fifteen runners == (P >= 0.01) / min(P1,P2) on 1200 symbolic bytes',
                   'thorough': 'n in {100,101,102,104,128}; runs distribution at n=100'},
        'outside': 'cumulative sums range (not derivable from erf axioms), Maurer; n up to 10^7 - only the result shapes, which do not depend on n, and the degenerate-divisor inputs at the bounded n are decided; Maurer',
        'assumptions': ['erfc axioms (range, reflection, monotonicity, erfc(x)<=1 for x>=0)', '0 <= igamc <= 1 is ASSUMED (its verification is property C06, not applicable)', 'NaN can only arise from a zero divisor / negative sqrt or log argument in the real-arithmetic model; zero-divisor inputs are replayed natively'],
    },
    'C05': {
        'jobs': c05_jobs,
        'bounds': {'quick': 'every n in 2..32 (powers of two, non powers, 2^k+1): padded +-1 input vector, count range i < n/2-1, threshold sqrt(2.995732274 n), N0, variance constant 3.8, P/Q tail; ceilPow2 for ALL 1 <= n <= 2^62 (63 unwindings, feasibility-pruned)',
                   'thorough': 'n in 2..64'},
        'outside': 'the transform itself (C19): fft.Transform is summarised as an uninterpreted function of its input vector, so "same padded input => same spectrum" is what is compared; n > 64; binary64 rounding; erfc accuracy; magnitudes within rounding of the threshold (both sides see the same uninterpreted magnitude)',
        'assumptions': ['fft.FFT.Transform summarised (C19)', 'cmplx.Abs uninterpreted', 'float tails as exact reals'],
    },
    'C19': {
        'jobs': c19_jobs,
        'technique': 'solver-based bounded checking of the real code: the butterfly network is executed symbolically over 2N free real inputs; each output is normalised by z3 to an exact rational linear form and compared with the direct DFT sum over the same twiddle table (difference bounded by exact interval arithmetic, SMT (LRA) query when the bound fails); lastPow2 over the whole int range as one bit-vector query family',
        'bounds': {'quick': 'Transform and Inverse(Transform) for N = 2..64, every complex input of the unit box (linear => every input up to scale), tolerance 1e-10; lastPow2 for all |N| <= 2^40 (27 unwindings); bit-reversal permutation p <= 8; New for non powers of two; wrong-length refusals; twiddle table vs 50-digit exp for N <= 1024 (concrete)',
                   'thorough': 'N up to 256; permutation p <= 10'},
        'outside': 'N > 256 (a fault that appears only at N = 2^20 would be missed); binary64 rounding inside the butterflies (exact real arithmetic over the binary64 twiddle values); sincos accuracy beyond the concrete table check',
        'assumptions': ['complex arithmetic as exact real arithmetic on the binary64 twiddle constants', 'twiddle table entries: libm sin/cos on concrete arguments (Go uses its own implementation; both within 1 ulp)'],
    },
    'C18': {
        'jobs': c18_jobs,
        'technique': 'solver-based bounded checking of the real code with effect tracking: during symbolic execution every store whose target object existed before the call (caller slices, package-level variables) becomes an obligation; input-unchanged and same-result-on-second-call are asserted over symbolic inputs; models are replayed natively with a concurrent second call under the Go race detector',
        'bounds': {'quick': 'thirteen test functions (all but Maurer/DFT/runs distribution) at n = 6..19 bits (longest run 128/130), byte fast paths at 2 and 5 bytes: no store outside memory allocated by the call, input cells equal afterwards, second call gives identical terms; the same tests on a window of a longer slice (spare capacity): memory behind the window untouched; T(y), T(x), T(z), T(x) with three different lengths: both results for x agree (incl. the DFT test with the transform summarised)',
                   'thorough': 'larger n (<= 24), runs distribution at n=100'},
        'outside': 'Maurer, DFT and the round functions (their purity follows from the same pattern but is not executed here); inputs above the bounds; freedom from data races between concurrent calls is the stated consequence of "writes only to memory allocated by the call, reads of shared data only" - the premises are checked, the conclusion is an argument (natively confirmed by the race detector only on replayed counterexamples)',
        'assumptions': ['object identity in the memory model is exact: a store is attributed to the allocation it addresses'],
    },
    'C17': {
        'jobs': c17_jobs,
        'technique': 'solver-based relational checking of the real code: two symbolic executions (x and T(x)) of the same go/ssa functions, counts identified by guard pairing, tails compared in reals+UF with the erfc reflection axiom; models replayed natively',
        'bounds': {'quick': 'complement: monobit (Q->1-Q), runs, block frequency, poker, overlapping, approximate entropy, binary derivative, autocorrelation at n<=12..19, longest run ones<->zeros at n=128,131, cumulative sums n<=8 every excursion; reversal: monobit, runs, overlapping, approximate entropy, binary derivative, autocorrelation, forward<->backward cumulative sums; every rotation at n=8,11 for overlapping and approximate entropy; adjacent whole-block swaps and every discarded-tail bit for block frequency, poker, longest run, rank (2x2), linear complexity (m=3,4)',
                   'thorough': 'the same families up to n=24 (approximate entropy m=2 up to n=16, m=5 up to n=10; cumulative n<=14), runs distribution under complement at n=100, rank 3x3'},
        'outside': 'Maurer and DFT symmetries; n above the bounds; non-adjacent block permutations are covered as products of adjacent swaps (argument); binary64 rounding (counts are proven equal, tails compared as exact reals)',
        'assumptions': ['erfc(-v) = 2 - erfc(v), erf(-v) = -erf(v) (axioms of the uninterpreted functions)', 'igamc/log uninterpreted'],
    },
    'C15': {
        'jobs': c15_jobs,
        'bounds': {'quick': 'B2bit/B2Byte complete (one symbolic byte); B2bitArr and ReadGroup for <=4 bytes; byte-oriented monobit and poker (m=2,4,8) vs the bit-oriented code on B2bitArr for <=6 bytes; the other *TestBytes entry points vs Proto(B2bitArr) at 2..3 bytes; registry runners vs explicit calls with the standard defaults, and Round15/Round12 vs the fifteen runners in the standard order, on 1200 symbolic bytes with the heavy callees summarised as uninterpreted functions of their arguments',
                   'thorough': 'bytes vs bits <=12 bytes; B2bitArr/ReadGroup <=8 bytes; defaults/rounds also at 128 and 1250 bytes'},
        'outside': 'byte strings longer than the bounds for the two real byte-oriented fast paths (monobit, poker: e.g. counter widths are not exercised at 65536+ equal bytes); bit-identity is established as identity of the float expression over proven-equal integer counts (same operations in the same order), not by bit-precise FP solving',
        'assumptions': ['defaults/rounds harnesses: the parameterised test functions / the runners are summarised as uninterpreted functions of (data content, parameters): equal results <=> same function on the same data with the same parameters', 'ioutil.ReadFile returns the bytes of the file (stub)'],
    },
    'C08': {
        'jobs': c08_jobs,
        'technique': 'solver-based bounded checking of the real code under one sequentialised schedule + per-iteration disjointness obligations with a symbolic job index (bridge argument for the other schedules); go/ssa -> symbolic execution -> z3, models replayed natively with real goroutines',
        'bounds': {'quick': 'the three Fast workflows at real sizes vs their sequential counterparts over all per-sample result matrices (scripted rounds), under ONE schedule (goroutines run to completion one after another at WaitGroup.Wait, W=2); one worker iteration with SYMBOLIC job indices i != j at sizes 20x12, 20x15, 50x15: only column i and the atomic counters are written; every plain store of a worker to memory shared with other workers must be made by at most one loop iteration per cell (otherwise: race obligation, replayed under the race detector)',
                   'thorough': 'same + periodic workflow with the real ThresholdQ inside'},
        'outside': 'other interleavings are NOT explored by the solver: schedule independence rests on the stated argument (identical workers; an iteration writes only column i - proven for symbolic i != j - and atomic counters; all writes precede Done in program order; the decision is a function of the final counters and columns; column contents do not depend on which job index a sample gets up to a permutation of rows, and the decision is permutation invariant by C12); the Go memory model below statement granularity; NumCPU workers > 2',
        'assumptions': ['source Read is atomic w.r.t. other Reads (granted by the property)', 'Round15/Round12 summarised by scripted symbolic results; ThresholdQ summarised in the quick tier (C12)', 'sync.WaitGroup / sync.Mutex / channels / atomic.AddInt32 modelled by their documented semantics'],
    },
    'C09': {
        'jobs': c09_jobs,
        'technique': 'solver-based bounded checking of the real code: symbolic failure offset and kind, io.ReadFull by contract, goroutines sequentialised; WaitGroup counter at Wait must be zero (deadlock obligation); models replayed natively with real goroutines under a watchdog',
        'bounds': {'quick': 'all seven workflow functions; failure offset SYMBOLIC over 0 .. s*size-1 (every byte offset: before the first sample, inside a sample, on a boundary, in the last sample) incl. partial reads; three error kinds; parallel variants under one schedule (W=2): Wait reachable with counter 0 on every path, (false, non-nil), jobs channel closed so parked workers are released',
                   'thorough': 'same'},
        'outside': 'wall-clock bounds (absence of blocking is shown, not a time limit); other interleavings (the deadlock obligation is schedule independent: every path through a worker iteration must perform exactly one Done)',
        'assumptions': ['io.ReadFull contract (either fills the buffer and returns nil, or delivers the bytes before the failure point with a non-nil error)', 'failure kinds differ only in the error value returned'],
    },
    'C10': {
        'jobs': c10_jobs,
        'technique': 'solver-based bounded checking of the real code: symbolic maximum read size, Reader/ReadFull contracts over an abstract stream, buffer freshness tracked per read; models replayed natively behind a chunking reader',
        'bounds': {'quick': 'six workflow functions at real sizes; every Read delivers at most a SYMBOLIC chunk of 1 .. size bytes; each judged sample must be a fully fresh block [k*size,(k+1)*size); verdict equals the full-read verdict; parallel reads happen under the run lock',
                   'thorough': 'same'},
        'outside': 'read-size histories that vary from Read to Read are covered only through the io.ReadFull contract (any history that eventually delivers the bytes); SingleDetect is covered by C11 (it uses io.ReadFull); interleaving of two workers partial reads is excluded by the lock (checked: no source read outside the lock)',
        'assumptions': ['io.Reader contract: Read returns 1..len bytes (or an error), writes exactly that many bytes', 'io.ReadFull contract'],
    },
    'C11': {
        'jobs': c11_jobs,
        'bounds': {'quick': 'SingleDetect with a SYMBOLIC requested length over 0 <= numByte < 2^31 (one query family, no smaller bound), four stream contents',
                   'thorough': 'same (complete over the length)'},
        'outside': 'what PokerTestBytes computes for m = 2, 4, 8 (C01/C15): it is summarised as an uninterpreted function of (content, start, length, m); negative lengths; lengths >= 2^31',
        'assumptions': ['io.ReadFull contract on a non-failing source: returns (len(buf), nil) having consumed len(buf) bytes (one Read; none for an empty buffer)', 'PokerTestBytes uninterpreted'],
    },
    'C07': {
        'jobs': c07_jobs,
        'bounds': {'quick': 'FactoryDetect / PowerOnDetect / PeriodDetect at their real sizes (50/20/20 samples x 15/15/12 items, 125000/125000/2500-byte buffers): complete over all pass matrices and all Q matrices in [0,1]',
                   'thorough': 'same (the quantification is already complete); longer solver time-outs'},
        'outside': 'what the round functions compute (C01-C05/C15) - they are replaced by scripted symbolic results; io.ReadFull by contract (C10); Igamc uninterpreted',
        'assumptions': ['quick tier: ThresholdQ summarised as a function of its argument list (its definition and order independence are C12); thorough tier additionally runs the periodic workflow with the real ThresholdQ', 'Round15/Round12 summarised: call k returns a slice of the real length whose item j has symbolic Pass_kj and Q_kj in [0,1]', 'io.ReadFull contract: fills the buffer with the next len(buf) stream bytes, returns (len, nil)', 'Igamc uninterpreted; Threshold evaluated concretely (binary64) for s = 50 / 20'],
    },
    'C12': {
        'jobs': c12_jobs,
        'bounds': {'quick': 'Threshold(s): bit-precise binary64 (QF_FP, RNE) for every s in 1..1024 in ranges of 64, against the exact integer characterisation; 48/50, 19/20, 981/1000 concretely; ThresholdQ: every list of length 1..12, 20, 50 of reals in [0,1], and every list of 1..2 binary64 values in [0,1] bit-precisely (bin edges under IEEE rounding); permutation invariance by adjacent swaps at lengths 2,3,5,8',
                   'thorough': 'Threshold(s) for s up to 16384 (ranges that time out are reported inconclusive); ThresholdQ lengths 1..20, 50, 100, 200; swaps at lengths up to 20'},
        'outside': 's above the bound (10^6 is out of reach of bit-precise FP solving: unknown at 300 s); Igamc itself (uninterpreted); Q-values outside [0,1] or NaN',
        'assumptions': ['ThresholdQ: float comparisons against the decimal bin edges are exact in reals and in binary64 alike (inputs compared with constants); V as exact real; Igamc uninterpreted'],
    },
    'C04': {
        'jobs': c04_jobs,
        'bounds': {'quick': 'linearComplexity kernel: crash freedom + shortest-LFSR definition for every block of M<=9 bits, crash freedom M in {10,12,14}; LinearComplexityProto m in 3..6, N<=2 blocks + tail; MatrixRankProto with m x m matrices m in {2,3}, N<=2 + tail; MaurerUniversalTest at the real L=7, Q=1280 with K=1 test block (n=8967 symbolic bits), one obligation per value of the test block; quick: 16 of the 128 values (0..3, 42..45, 85..88, 124..127)',
                   'thorough': 'LC kernel definition M<=12, crash freedom M<=20; Proto m<=8; rank m<=3 with N<=2 matrices, 4x4 with one matrix (+ tail); Maurer: all 128 values of the test block at n=8967 and n=8970 (discarded tail); K>=2 test blocks are outside (one group of 8 values takes more than 20 minutes)'},
        'outside': 'production sizes (32x32 matrices, m=500/1000/5000 blocks) are outside: the same code runs there but neither the definitional spec nor the merged symbolic elimination is within reach; Maurer with more than 2 test blocks; binary64 rounding; igamc accuracy',
        'assumptions': ['float64 tails as exact reals; igamc/erfc/log/pow uninterpreted', 'class of T decided from the integer L (exact: offsets stay within (-1/2,1/2))'],
    },
    'C03': {
        'jobs': c03_jobs,
        'bounds': {'quick': 'binary derivative k in {3,7,15}, autocorrelation d in {1,2,8,16,32}: n<=32; cumulative sums n<=16, both directions, every excursion z=1..n (one obligation per z, exhaustiveness of the split proven), and the smallest excursion z=1 at n in {34,36,40} (series with more than 32 terms); the two alternating sequences (Z=1) at n in {100,128,1000} concretely',
                   'thorough': 'binary derivative / autocorrelation n<=64; cumulative sums n<=20 every excursion, z in {1,2} at n up to 64'},
        'outside': 'n above the bounds (the standard minimum is 100 bits: the same code is exercised at smaller n); binary64 rounding; erfc/erf accuracy',
        'assumptions': ['float64 tails as exact reals; erfc/erf uninterpreted on symbolic arguments, libm on concrete arguments', 'cumulative sums: series limits follow the NIST/GM-T integer (truncating) arithmetic'],
    },
    'C02': {
        'jobs': c02_jobs,
        'bounds': {'quick': 'runs 2<=n<=32 (+ constant sequences n<=8 concretely); runs distribution n in {100,101,128,160} (cut-off k=2 and the first length with k=3); longest run n in {128,131,136} x {ones,zeros}; regime selection all int64 n; class-probability tables vs exact recurrence',
                   'thorough': 'runs n<=64; runs distribution n in {100..103,110,128,159..161,165,320..322} (both sides of the k=2/3 and k=3/4 cut-off boundaries); longest run n in {128..131,135,136,137,144}'},
        'outside': 'regimes m=128 (n>=6272) and m=10000 of the longest-run test are covered only through regime selection, the table check and the shared code path; lengths above the bounds; binary64 rounding; igamc/erfc accuracy',
        'assumptions': ['float64 tails as exact reals; erfc/igamc uninterpreted', 'runs test: the slice pi(1-pi)=0 (constant sequences) is excluded from the symbolic query and checked concretely for n<=8', 'longest-run class probabilities: reference values from an exact big-integer recurrence computed by the checker (trusted computation)'],
    },
    'C01': {
        'jobs': c01_jobs,
        'bounds': {'quick': 'monobit n<=24 bits / <=4 bytes; block frequency 2<=m<=n<=20; poker m in {2,4,8} n<=24 / <=4 bytes; overlapping m in {2,3,5,7} n<=16; approximate entropy m in {2,5,7} n<=16; selectM all int64 n',
                   'thorough': 'monobit n<=64 / <=8 bytes; block frequency 2<=m<=n<=40; poker n<=64 / <=8 bytes; overlapping n<=32; approximate entropy n<=32; selectM all int64 n'},
        'outside': 'lengths above the bound; binary64 rounding of the tail; accuracy of erfc/igamc/log (uninterpreted)',
        'assumptions': ['float64 arithmetic of statistic tails modelled as exact real arithmetic; erfc/igamc/log uninterpreted (congruence + Lipschitz bridge 1e-9 on arguments)'],
    },
}

NOT_APPLICABLE = {
    'C06': 'accuracy of a binary64 power-series / continued-fraction implementation of Q(a,x) with log/exp/lgamma: transcendental floating point with convergence-dependent trip counts is outside what z3/cvc5 can decide; as uninterpreted functions they carry no accuracy information (DESIGN.md 5/C06)',
    'C14': 'end-to-end over 10^6-bit samples: needs a 125000-byte symbolic-index histogram loop and the numeric value of igamc(127.5, x); both outside solver reach, and assuming either would assume the conclusion (DESIGN.md 5/C14)',
}
