"""Property table: which harness instances (jobs) decide each property, per tier."""


def J(pkg, harness, params, **opts):
    return {'pkg': pkg, 'harness': harness, 'params': list(params), 'opts': opts}


def c01_jobs(tier):
    q = tier == 'quick'
    jobs = [J('root', 'H_C01_selectM', [])]
    for n in range(1, (24 if q else 64) + 1):
        jobs.append(J('root', 'H_C01_monobit', [n]))
    for nb in range(1, (4 if q else 8) + 1):
        jobs.append(J('root', 'H_C01_monobit_bytes', [nb]))
    nmax = 20 if q else 40
    for n in range(2, nmax + 1):
        for m in range(2, n + 1):
            if q and m > 12 and m not in (n, n - 1):
                continue
            jobs.append(J('root', 'H_C01_blockfreq', [n, m]))
    for n in (10, 19, 20, 25, 31) if q else range(10, 64):
        jobs.append(J('root', 'H_C01_blockfreq_auto', [n]))
    for m in (2, 4, 8):
        for n in range(8, (24 if q else 64) + 1):
            jobs.append(J('root', 'H_C01_poker', [n, m]))
        for nb in range(1, (4 if q else 8) + 1):
            jobs.append(J('root', 'H_C01_poker_bytes', [nb, m]))
    for m in (2, 3, 5, 7):
        for n in range(max(5, m), (16 if q else 32) + 1):
            jobs.append(J('root', 'H_C01_overlapping', [n, m]))
    for m in (2, 5, 7):
        for n in range(1, (16 if q else 32) + 1):
            jobs.append(J('root', 'H_C01_apen', [n, m]))
    return jobs


PROPS = {
    'C01': {
        'jobs': c01_jobs,
        'bounds': {'quick': 'monobit n<=24 bits / <=4 bytes; block frequency 2<=m<=n<=20; poker m in {2,4,8} n<=24 / <=4 bytes; overlapping m in {2,3,5,7} n<=16; approximate entropy m in {2,5,7} n<=16; selectM all int64 n',
                   'thorough': 'monobit n<=64 / <=8 bytes; block frequency 2<=m<=n<=40; poker n<=64 / <=8 bytes; overlapping n<=32; approximate entropy n<=32; selectM all int64 n'},
        'outside': 'lengths above the bound; binary64 rounding of the tail; accuracy of erfc/igamc/log (uninterpreted)',
        'assumptions': ['float64 arithmetic of statistic tails modelled as exact real arithmetic; erfc/igamc/log uninterpreted (congruence + Lipschitz bridge 1e-9 on arguments)'],
    },
}
