"""Property table: which harness instances (jobs) decide each property, per tier."""


def J(pkg, harness, params, **opts):
    return {'pkg': pkg, 'harness': harness, 'params': list(params), 'opts': opts}


def c01_jobs(tier):
    jobs = []
    nmax = 24 if tier == 'quick' else 64
    for n in range(1, nmax + 1):
        jobs.append(J('root', 'H_C01_monobit', [n]))
    return jobs


PROPS = {
    'C01': {
        'jobs': c01_jobs,
        'bounds': {'quick': 'monobit n<=24', 'thorough': 'monobit n<=64'},
        'outside': 'lengths above the bound; binary64 rounding of the tail; accuracy of erfc/igamc/log (uninterpreted)',
        'assumptions': ['float64 arithmetic of statistic tails modelled as exact real arithmetic; erfc/igamc/log uninterpreted (congruence + Lipschitz bridge 1e-9 on arguments)'],
    },
}
