import os
"""gosym core: symbolic execution of go/ssa (JSON form) with state merging at post-dominators."""
import sys
import math
import time
import z3
from vals import *
from ops import *
from mem import *
import vals as _vals
import ops as _ops


class SymIdx(object):
    """symbolic element of a pointer path: absolute index value idx, valid window [lo, lo+n)"""
    __slots__ = ('idx', 'lo', 'n')

    def __init__(self, idx, lo, n):
        self.idx = idx
        self.lo = lo
        self.n = n


class Frame(object):
    __slots__ = ('fn', 'env', 'defers', 'symcount', 'visits')

    def __init__(self, fn, env):
        self.fn = fn
        self.env = env
        self.defers = []
        self.symcount = {}
        self.visits = {}

    def fork(self):
        f = Frame(self.fn, dict(self.env))
        f.defers = list(self.defers)
        f.symcount = self.symcount
        f.visits = self.visits
        return f


class Poison(object):
    def __init__(self, why):
        self.why = why


class Obligation(object):
    __slots__ = ('kind', 'pc', 'cond', 'label', 'pos', 'extra')

    def __init__(self, kind, pc, cond, label, pos='', extra=None):
        self.kind = kind      # 'assert' | 'panic' | 'bounds' | 'div0' | 'close' | 'reach' | 'unwind' | 'nil'
        self.pc = pc          # tuple of z3 bools
        self.cond = cond      # violation condition (z3 bool / True) : sat(pc & cond) == violation
        self.label = label
        self.pos = pos
        self.extra = extra


class Executor(object):
    def __init__(self, prog, intrinsics, unwind=64, maxvisits=2000000):
        self.prog = prog
        self.intr = intrinsics
        self.fc = FloatCtx()
        _ops._fc[0] = self.fc
        self.obls = []
        self.log = []           # (pc, name, args, result)
        self.inputs = []        # (kind, z3 vars / structure) in call order for replay
        self.nobj = 0
        self.unwind = unwind
        self.maxvisits = maxvisits
        self.solver = z3.Solver()
        self.solver.set('timeout', 20000)
        self.feas_cache = {}
        self.stats = {'feas_queries': 0, 'sym_ifs': 0, 'instrs': 0, 'merges': 0}
        self.effects = []       # stores to objects older than the watched call (C18)
        self.watch = None
        self.fdivs = []
        self.fdiv_seen = {}
        self.alloc_epoch = {}
        self.funcs_used = set()
        self.notes = set()
        self.unwind_limits = {}
        self.event_mode = False
        self.events = []
        self.assume_feasible = False
        self.debug_merge = None
        self.share_track = None
        self.linear_normalize = False
        self.effect_seen = set()
        self.varsets = {}
        self.feas_timeout_ms = 20000
        self.feas_giveup = {}
        self.last_feas_unknown = False
        self.pin_consts = False
        self.fp_mode = False
        self.candidates = []
        self.debug_ic = bool(__import__('os').environ.get('DEBUG_IC'))

    # ---------------------------------------------------------------- memory
    def new_obj(self, st, value, tag=''):
        self.nobj += 1
        oid = 'o%d%s' % (self.nobj, tag)
        st.heap[oid] = value
        return oid

    def note_fdiv(self, rb):
        k = rb.get_id()
        if k not in self.fdiv_seen:
            self.fdiv_seen[k] = rb
            self.fdivs.append(rb)

    def oblige(self, kind, st, cond, label, pos='', extra=None):
        self.obls.append(Obligation(kind, st.pc, cond, label, pos, extra))

    def kill(self, st):
        st.dead = True
        return st

    def load(self, st, p, tid, pos=''):
        if isinstance(p, SymChoice):
            res = None
            for g, alt in reversed(p.alts):
                v = self.load(st, alt, tid, pos)
                res = v if res is None else self.merge_any(g, v, res)
            return res
        if p is None:
            self.oblige('nil', st, True, 'nil pointer dereference', pos)
            raise PathDead()
        if p.obj not in st.heap:
            raise Unsupported('load from unknown object %s' % p.obj)
        tree = st.heap[p.obj]
        path = p.path
        for k, e in enumerate(path):
            if isinstance(e, SymIdx):
                cells = tree[e.lo:e.lo + e.n]
                rest = path[k + 1:]
                if rest:
                    cells = [tree_get(c, rest) for c in cells]
                kind = kind_of(self.prog, tid)
                rel = int_binop('-', e.idx, e.lo, 64, True)
                if kind in ('int', 'float', 'bool') and not isinstance(cells[0], list):
                    w, sg = (int_info(self.prog, tid) if kind == 'int' else (64, True))
                    if all(c is cells[0] for c in cells):
                        return cells[0]
                    return LazySel(rel, cells, kind, w, sg)
                res = None
                for j in range(len(cells) - 1, -1, -1):
                    if res is None:
                        res = cells[j]
                    else:
                        g = int_cmp('==', rel, j, 64, True)
                        res = self.merge_any(g, cells[j], res)
                return res
            tree = tree[e]
        return tree

    def merge_any(self, g, a, b):
        if isinstance(a, list):
            return merge_tree(self.prog, g, a, b)
        return merge_scalar(g, a, b)

    def store(self, st, p, v, guard=True, pos=''):
        if isinstance(p, SymChoice):
            for g, alt in p.alts:
                self.store(st, alt, v, b_and(guard, g), pos)
            return
        if p is None:
            self.oblige('nil', st, True, 'nil pointer dereference', pos)
            raise PathDead()
        if self.watch is not None and not (isinstance(p.obj, str) and self.alloc_epoch.get(p.obj, 0) >= self.watch):
            key = (p.obj, pos)
            if key not in self.effect_seen:
                self.effect_seen.add(key)
                self.effects.append((st.pc, p.obj, pos))
                what = 'package-level variable ' + p.obj[2:] if str(p.obj).startswith('g:') else 'memory that existed before the call (caller data or shared state)'
                self.oblige('effect', st, guard if not isinstance(guard, bool) else True, 'store to ' + what, pos)
        if self.share_track is not None:
            self.share_track(self, st, p, pos)
        if p.obj not in st.heap and str(p.obj).startswith('g:') and not p.path:
            st.heap[p.obj] = None      # variable of a package outside the dump (e.g. flag.Usage)
        tree = st.heap[p.obj]
        st.heap[p.obj] = self._store(tree, p.path, v, guard)

    def _store(self, tree, path, v, guard):
        if not path:
            if guard is True:
                return force(v) if isinstance(v, LazySel) else v
            return self.merge_any(guard, force(v) if isinstance(v, LazySel) else v, tree)
        e = path[0]
        if isinstance(e, SymIdx):
            new = list(tree)
            rest = path[1:]
            lazy = None
            if isinstance(v, LazySel) and not rest and len(v.cells) == e.n:
                rel = int_binop('-', e.idx, e.lo, 64, True)
                if self._same_int(rel, v.idx):
                    lazy = v
            if lazy is None and isinstance(v, LazySel):
                v = force(v)
            for j in range(e.n):
                g = int_cmp('==', e.idx, e.lo + j, 64, True)
                if g is False:
                    continue
                gg = b_and(guard, g)
                val = lazy.cells[j] if lazy is not None else v
                if isinstance(g, z3.ExprRef):
                    _vals._guard_info.setdefault(g.get_id(), ('idx', e.idx, e.lo + j))
                new[e.lo + j] = self._store(tree[e.lo + j], rest, val, gg)
            return new
        new = list(tree)
        new[e] = self._store(tree[e], path[1:], v, guard)
        return new

    def _same_int(self, a, b):
        if a is b:
            return True
        if isinstance(a, int) and isinstance(b, int):
            return a == b
        if isinstance(a, GSum) and isinstance(b, GSum):
            return a.key() == b.key()
        if isinstance(a, z3.ExprRef) and isinstance(b, z3.ExprRef):
            return a.eq(b)
        return False

    # ---------------------------------------------------------------- operands
    def const(self, c):
        tid = c['type']
        if c.get('nil'):
            k = kind_of(self.prog, tid)
            if k == 'slice':
                return NILSLICE
            return None
        if 'int' in c:
            k = kind_of(self.prog, tid)
            if k == 'int':
                w, sg = int_info(self.prog, tid)
                return canon(int(c['int']), w, sg)
            if k == 'float':
                return float(int(c['int']))
            if k == 'complex':
                return Cx(float(int(c['int'])), 0.0)
            return int(c['int'])
        if 'float' in c:
            k = kind_of(self.prog, tid)
            if k == 'int':
                w, sg = int_info(self.prog, tid)
                return canon(int(float.fromhex(c['float'])), w, sg)
            return float.fromhex(c['float'])
        if 'bool' in c:
            return c['bool']
        if 'str' in c:
            return c['str']
        if 're' in c:
            return Cx(float.fromhex(c['re']), float.fromhex(c['im']))
        raise Unsupported('const %r' % c)

    def val(self, fr, o):
        if isinstance(o, str):
            ch = o[0]
            if ch in '%$^':
                v = fr.env[o]
                if isinstance(v, Poison):
                    raise Unsupported('use of unmergeable value: ' + v.why)
                return v
            if ch == '@':
                return Ptr('g:' + o[1:])
            if ch == '&':
                return FuncRef(o[1:])
            if ch == '!':
                return ('builtin', o[1:])
        if o is None:
            return None
        return self.const(o)

    # ---------------------------------------------------------------- feasibility
    def varset(self, t):
        k = t.get_id()
        r = self.varsets.get(k)
        if r is not None:
            return r
        seen = set()
        out = set()
        stack = [t]
        while stack:
            x = stack.pop()
            i = x.get_id()
            if i in seen:
                continue
            seen.add(i)
            if z3.is_const(x) and x.decl().kind() == z3.Z3_OP_UNINTERPRETED:
                out.add(x.decl().name())
            else:
                stack.extend(x.children())
        r = frozenset(out)
        self.varsets[k] = r
        pin(t)
        return r

    def feasible(self, pc, c):
        if self.assume_feasible:
            return True
        # a condition over variables the path condition does not mention cannot be decided by it
        vc = self.varset(c)
        if vc and all(vc.isdisjoint(self.varset(x)) for x in pc):
            return True
        key = (tuple(x.get_id() for x in pc), c.get_id())
        r = self.feas_cache.get(key)
        if r is None:
            self.stats['feas_queries'] += 1
            sv = z3.Solver()
            sv.set('timeout', self.feas_timeout_ms)
            for x in pc:
                sv.add(x)
            sv.add(c)
            res = sv.check()
            r = (res != z3.unsat)
            self.last_feas_unknown = (res == z3.unknown)
            self.feas_cache[key] = r
            pin(c, *pc)
        return r

    def implied_const(self, st, v, w, sg):
        """if the path condition forces v to a single value return it (two solver queries), else None"""
        if not self.pin_consts:
            return None
        t = tobv(v, w)
        key = ('ic', tuple(x.get_id() for x in st.pc), t.get_id())
        pin(t, *st.pc)
        if key in self.feas_cache:
            return self.feas_cache[key]
        self.stats['feas_queries'] += 2
        s = z3.Solver()
        s.set('timeout', 20000)
        for x in st.pc:
            s.add(x)
        r = None
        t0 = time.time()
        r1 = s.check()
        r2 = None
        if r1 == z3.sat:
            c = s.model().eval(t, model_completion=True)
            s = z3.Solver()      # fresh solver: z3's incremental mode is far slower on bit-vector problems
            s.set('timeout', 60000)
            for x in st.pc:
                s.add(x)
            s.add(t != c)
            r2 = s.check()
            if r2 == z3.unsat:
                r = canon(c.as_long(), w, sg)
            elif r2 == z3.sat and len(self.candidates) < 2:
                # a second value is possible: keep the witness as a candidate input for native replay
                self.candidates.append(s.model())
        if self.debug_ic:
            print('implied_const', r1, r2, r, '%.2fs' % (time.time() - t0))
        self.feas_cache[key] = r
        return r

    # ---------------------------------------------------------------- state merging
    def merge_states(self, s1, s2):
        """returns (merged state, cond under which s1 applies)"""
        self.stats['merges'] += 1
        p1, p2 = s1.pc, s2.pc
        k = 0
        n = min(len(p1), len(p2))
        while k < n and (p1[k] is p2[k] or p1[k].eq(p2[k])):
            k += 1
        r1, r2 = p1[k:], p2[k:]
        c1 = True
        for x in r1:
            c1 = b_and(c1, x)
        c2 = True
        for x in r2:
            c2 = b_and(c2, x)
        if isinstance(c1, bool) and c1 and isinstance(c2, bool) and c2:
            # identical pcs: should not happen for distinct branches
            c1 = True
        heap = s1.heap
        h2 = s2.heap
        new = dict(h2)
        for oid, v1 in heap.items():
            v2 = h2.get(oid, self)
            if v2 is self:
                new[oid] = v1
            elif v1 is not v2:
                new[oid] = merge_tree(self.prog, c1, v1, v2)
        if len(r1) == 1 and len(r2) == 1 and (b_not(r1[0]).eq(r2[0]) or b_not(r2[0]).eq(r1[0])):
            pc = p1[:k]
        else:
            pc = p1[:k] + (b_or(c1, c2),)
        return State(new, pc), c1

    def merge_envs(self, c, e1, e2, keys):
        """values defined only inside one branch are dead after the join (SSA dominance): keep the keys that
        existed at the fork plus the join block's phis"""
        out = {}
        for k in keys:
            v1 = e1.get(k, self)
            v2 = e2.get(k, self)
            if v1 is self:
                if v2 is not self:
                    out[k] = v2
                continue
            if v2 is self or v1 is v2:
                out[k] = v1
                continue
            try:
                out[k] = self.merge_any(c, v1, v2)
            except Unsupported as ex:
                out[k] = Poison(str(ex))
        return out

    def merge_ret(self, a, b):
        if a is None:
            return b
        if b is None:
            return a
        st, c = self.merge_states(a[0], b[0])
        vals = tuple(self.merge_any(c, x, y) for x, y in zip(a[1], b[1]))
        return (st, vals)

    # ---------------------------------------------------------------- main loop
    def call_fn(self, fn, args, st, bindings=None):
        """execute fn (with blocks); returns (state or None, result tuple)"""
        self.funcs_used.add(fn.name)
        env = {}
        for name, a in zip(fn.params, args):
            env['$' + name] = a
        if bindings:
            for name, b in zip(fn.freevars, bindings):
                env['^' + name] = b
        fr = Frame(fn, env)
        out, ret = self.run(fr, 0, None, st, None)
        if ret is None:
            return None, None
        return ret

    def eval_phis(self, fr, b, pred):
        fn = fr.fn
        nphi = fn.nphi[b]
        if not nphi:
            return
        blk = fn.blocks[b]
        pi = blk['preds'].index(pred)
        instrs = blk['instrs']
        newv = [self.val(fr, instrs[k]['edges'][pi]) for k in range(nphi)]
        for k in range(nphi):
            fr.env['%' + instrs[k]['name']] = newv[k]

    def run(self, fr, b, pred, st, stop):
        fn = fr.fn
        ret = None
        skip_phi = False
        while True:
            if b == stop:
                return (st, pred, fr, skip_phi), ret
            blk = fn.blocks[b]
            if not skip_phi and pred is not None:
                self.eval_phis(fr, b, pred)
            skip_phi = False
            v = fr.visits.get(b, 0) + 1
            fr.visits[b] = v
            if v > self.maxvisits:
                raise Unsupported('visit limit exceeded in %s block %d' % (fn.name, b))
            instrs = blk['instrs']
            nxt = None
            for ins in instrs[fn.nphi[b]:]:
                op = ins['op']
                self.stats['instrs'] += 1
                if op == 'Jump':
                    nxt = blk['succs'][0]
                    break
                if op == 'If':
                    c = self.val(fr, ins['cond'])
                    if isinstance(c, bool):
                        nxt = blk['succs'][0] if c else blk['succs'][1]
                        break
                    self.stats['sym_ifs'] += 1
                    if self.debug_merge is not None:
                        kk = (fn.name.rsplit('.', 1)[-1], b)
                        self.debug_merge[kk] = self.debug_merge.get(kk, 0) + 1
                    nc = b_not(c)
                    ft = ff = True
                    if fn.loopctl[b]:
                        _t0 = time.time()
                        fk = (fn.name, b)
                        if self.feas_giveup.get(fk, 0) >= 2:
                            # the solver could not decide the last two feasibility questions at this branch: stop asking
                            # (both successors are kept, which is always sound; the loop stays bounded by its unwind limit)
                            ft = ff = True
                        else:
                            self.last_feas_unknown = False
                            ft = self.feasible(st.pc, c)
                            u1 = self.last_feas_unknown
                            self.last_feas_unknown = False
                            ff = self.feasible(st.pc, nc)
                            if u1 or self.last_feas_unknown:
                                self.feas_giveup[fk] = self.feas_giveup.get(fk, 0) + 1
                            else:
                                self.feas_giveup[fk] = 0
                        if os.environ.get('DBG') and time.time() - _t0 > 1:
                            print('slow feasibility %.1fs %s b%d %s' % (time.time() - _t0, fn.name, b, ins.get('pos', '')), ft, ff, str(c)[:300])
                        if ft and ff:
                            k = fr.symcount.get(b, 0) + 1
                            fr.symcount[b] = k
                            lim = self.unwind_limits.get(fn.name, self.unwind)
                            if k > lim:
                                # unwinding assertion: continuing the loop must be impossible
                                t_stays = b in fn.reach[blk['succs'][0]]
                                self.oblige('unwind', st, c if t_stays else nc, 'unwind limit %d at %s b%d' % (lim, fn.name, b), ins.get('pos', ''))
                                if t_stays:
                                    ft = False
                                else:
                                    ff = False
                    if not ft and not ff:
                        return None, ret
                    if not ff:
                        nxt = blk['succs'][0]
                        break
                    if not ft:
                        nxt = blk['succs'][1]
                        break
                    J = fn.ipdom[b]
                    if J is None:
                        J = stop
                    base_keys = set(fr.env)
                    f1, f2 = fr.fork(), fr.fork()
                    s1, s2 = st.copy(), st.copy()
                    s1.pc = st.pc + (c,)
                    s2.pc = st.pc + (nc,)
                    o1, r1 = self.run(f1, blk['succs'][0], b, s1, J)
                    o2, r2 = self.run(f2, blk['succs'][1], b, s2, J)
                    ret = self.merge_ret(ret, self.merge_ret(r1, r2))
                    if o1 is None and o2 is None:
                        return None, ret
                    if J == stop and J is not None:
                        # hand both outcomes to the caller level: merge here as well
                        pass
                    if o1 is None or o2 is None:
                        o = o1 or o2
                        st, pred, frx, skip_phi = o
                        fr.env = frx.env
                        fr.defers = frx.defers
                        b = J
                        nxt = -1
                        break
                    # both reached J: evaluate phis per edge, then merge
                    if J is not None:
                        if not o1[3]:
                            self.eval_phis(o1[2], J, o1[1])
                        if not o2[3]:
                            self.eval_phis(o2[2], J, o2[1])
                    st, cm = self.merge_states(o1[0], o2[0])
                    if J is not None:
                        jb = fn.blocks[J]['instrs']
                        for k in range(fn.nphi[J]):
                            base_keys.add('%' + jb[k]['name'])
                    fr.env = self.merge_envs(cm, o1[2].env, o2[2].env, base_keys)
                    fr.defers = o1[2].defers
                    pred = o1[1]
                    b = J
                    skip_phi = True
                    nxt = -1
                    break
                if op == 'Return':
                    vals_ = tuple(self.val(fr, r) for r in ins['results'])
                    ret = self.merge_ret(ret, (st, vals_))
                    return None, ret
                if op == 'Panic':
                    x = self.val(fr, ins['x'])
                    self.oblige('panic', st, True, self.panic_msg(x), ins.get('pos', ''))
                    return None, ret
                try:
                    self.step(fr, ins, st)
                except PathDead:
                    return None, ret
                if st.dead:
                    return None, ret
            if nxt is None:
                raise Unsupported('block without terminator in ' + fn.name)
            if nxt == -1:
                if b is None:
                    return None, ret
                continue
            pred = b
            b = nxt

    def panic_msg(self, x):
        if isinstance(x, Iface):
            v = x.val
            if isinstance(v, str):
                return 'panic: ' + v
            if isinstance(v, Opaque):
                return 'panic: %s %r' % (v.kind, v.data)
            return 'panic: %r' % (v,)
        return 'panic: %r' % (x,)

    # ---------------------------------------------------------------- single instruction
    def step(self, fr, ins, st):
        op = ins['op']
        h = getattr(self, 'op_' + op, None)
        if h is None:
            raise Unsupported('instruction ' + op)
        r = h(fr, ins, st)
        if 'name' in ins:
            fr.env['%' + ins['name']] = r

    def op_Alloc(self, fr, ins, st):
        t = self.prog.under(ins['type'])
        oid = self.new_obj(st, zero_value(self.prog, t['elem']))
        self.alloc_epoch[oid] = self.nobj
        return Ptr(oid, ())

    def op_MakeSlice(self, fr, ins, st):
        n = self.val(fr, ins['len'])
        c = self.val(fr, ins['cap'])
        t = self.prog.under(ins['type'])
        if not isinstance(n, int) or not isinstance(c, int):
            h = self.intr.get('#makeslice_sym')
            if h is None:
                raise Unsupported('symbolic make length')
            return h(self, fr, st, n, c, ins)
        if n < 0 or c < n:
            self.oblige('panic', st, True, 'makeslice: len out of range', ins.get('pos', ''))
            raise PathDead()
        z = zero_value(self.prog, t['elem'])
        if isinstance(z, list):
            arr = [zero_value(self.prog, t['elem']) for _ in range(c)]
        else:
            arr = [z] * c
        oid = self.new_obj(st, arr)
        self.alloc_epoch[oid] = self.nobj
        return Slice(oid, (), 0, n, c)

    def op_BinOp(self, fr, ins, st):
        x = self.val(fr, ins['x'])
        y = self.val(fr, ins['y'])
        bop = ins['bop']
        k = kind_of(self.prog, ins['xtype'])
        if k == 'int':
            w, sg = int_info(self.prog, ins['xtype'])
            if bop in ('==', '!=', '<', '<=', '>', '>='):
                return int_cmp(bop, x, y, w, sg)
            if bop in ('<<', '>>'):
                yk = kind_of(self.prog, ins['ytype'])
                if not isinstance(y, int):
                    yw, ysg = int_info(self.prog, ins['ytype'])
                    y = int_convert(y, yw, ysg, w, False)
                elif y < 0:
                    self.oblige('panic', st, True, 'negative shift amount', ins.get('pos', ''))
                    raise PathDead()
            if bop == '*':
                # a bit-vector (non linear-form) factor that the path condition pins to one value is folded
                x, y = force(x), force(y)
                if isinstance(x, z3.ExprRef) and isinstance(y, int):
                    cx = self.implied_const(st, x, w, sg)
                    if cx is not None:
                        x = cx
                elif isinstance(y, z3.ExprRef) and isinstance(x, int):
                    cy = self.implied_const(st, y, w, sg)
                    if cy is not None:
                        y = cy
            if bop in ('/', '%'):
                if not isinstance(force(y), int):
                    cy = self.implied_const(st, force(y), w, sg)
                    if cy is not None:
                        y = cy
                if isinstance(force(y), int):
                    if y == 0:
                        self.oblige('div0', st, True, 'integer divide by zero', ins.get('pos', ''))
                        raise PathDead()
                else:
                    z = int_cmp('==', y, 0, w, sg)
                    if z is not False:
                        self.oblige('div0', st, z, 'integer divide by zero', ins.get('pos', ''))
                        if z is True:
                            raise PathDead()
                        st.pc = st.pc + (b_not(z),)
            return int_binop(bop, x, y, w, sg)
        if k == 'float':
            if bop in ('==', '!=', '<', '<=', '>', '>='):
                return f_cmp(self.fc, bop, x, y)
            return f_binop(self.fc, bop, x, y, self)
        if k == 'bool':
            if bop == '==':
                return b_not(self.bxor(x, y))
            if bop == '!=':
                return self.bxor(x, y)
            if bop == '&&' or bop == '&':
                return b_and(x, y)
            if bop == '||' or bop == '|':
                return b_or(x, y)
            raise Unsupported('bool op ' + bop)
        if k == 'string':
            if isinstance(x, str) and isinstance(y, str):
                if bop == '+':
                    return x + y
                return {'==': x == y, '!=': x != y, '<': x < y, '<=': x <= y, '>': x > y, '>=': x >= y}[bop]
            h = self.intr.get('#strop')
            if h:
                return h(self, bop, x, y)
            raise Unsupported('symbolic string op')
        if k == 'complex':
            return self.cx_binop(bop, x, y)
        if bop in ('==', '!='):
            r = self.ref_eq(x, y)
            return r if bop == '==' else b_not(r)
        raise Unsupported('binop %s on %s' % (bop, k))

    def bxor(self, x, y):
        if isinstance(x, bool):
            return b_not(y) if x else y
        if isinstance(y, bool):
            return b_not(x) if y else x
        if x.eq(y):
            return False
        if z3.is_not(x) and z3.is_not(y):
            x, y = x.arg(0), y.arg(0)
        if x.get_id() > y.get_id():
            x, y = y, x
        return z3.Xor(x, y)

    def ref_eq(self, x, y):
        """equality on pointers / interfaces / nil"""
        if x is None and y is None:
            return True
        if x is None or y is None:
            o = y if x is None else x
            if isinstance(o, Iface):
                return o.isnil
            if isinstance(o, Slice):
                return o.obj is None
            if isinstance(o, SymChoice):
                r = False
                for g, a in o.alts:
                    r = b_or(r, b_and(g, self.ref_eq(a, None)))
                return r
            return False
        if isinstance(x, Iface) and isinstance(y, Iface):
            if isinstance(x.val, Opaque) and isinstance(y.val, Opaque) and x.val.kind == 'error' and y.val.kind == 'error' \
                    and x.val.data and y.val.data and x.val.data[0] == 'id' and y.val.data[0] == 'id':
                same = int_cmp('==', x.val.data[1], y.val.data[1], 64, True)
                return b_or(b_and(x.isnil, y.isnil), b_and(b_and(b_not(x.isnil), b_not(y.isnil)), same))
            if isinstance(x.val, Opaque) and isinstance(y.val, Opaque):
                same = x.val is y.val or (x.val.kind == y.val.kind and x.val.data == y.val.data)
                if isinstance(x.isnil, bool) and isinstance(y.isnil, bool) and not x.isnil and not y.isnil:
                    return same
            raise Unsupported('interface comparison')
        if isinstance(x, Ptr) and isinstance(y, Ptr):
            return x.obj == y.obj and x.path == y.path
        if isinstance(x, Opaque) and isinstance(y, Opaque):
            return x is y
        raise Unsupported('reference comparison %r %r' % (x, y))

    def cx_binop(self, bop, x, y):
        r = self._cx_binop(bop, x, y)
        if self.linear_normalize:
            def norm(v):
                if isinstance(v, FReal):
                    return FReal(z3.simplify(v.t, som=True))
                return v
            r = Cx(norm(r.re), norm(r.im))
        return r

    def _cx_binop(self, bop, x, y):
        fc = self.fc
        if bop == '+':
            return Cx(f_binop(fc, '+', x.re, y.re), f_binop(fc, '+', x.im, y.im))
        if bop == '-':
            return Cx(f_binop(fc, '-', x.re, y.re), f_binop(fc, '-', x.im, y.im))
        if bop == '*':
            re = f_binop(fc, '-', f_binop(fc, '*', x.re, y.re), f_binop(fc, '*', x.im, y.im))
            im = f_binop(fc, '+', f_binop(fc, '*', x.re, y.im), f_binop(fc, '*', x.im, y.re))
            return Cx(re, im)
        raise Unsupported('complex op ' + bop)

    def op_UnOp(self, fr, ins, st):
        x = self.val(fr, ins['x'])
        u = ins['uop']
        if u == '*':
            return self.load(st, x, ins['type'], ins.get('pos', ''))
        if u == '!':
            return b_not(x)
        if u == '-':
            k = kind_of(self.prog, ins['type'])
            if k == 'int':
                w, sg = int_info(self.prog, ins['type'])
                return int_binop('-', 0, x, w, sg)
            if k == 'float':
                return f_neg(self.fc, x)
            if k == 'complex':
                return Cx(f_neg(self.fc, x.re), f_neg(self.fc, x.im))
        if u == '^':
            w, sg = int_info(self.prog, ins['type'])
            return int_binop('^', x, canon(-1, w, sg), w, sg)
        if u == '<-':
            h = self.intr.get('#recv')
            if h:
                return h(self, fr, st, x, ins)
        raise Unsupported('unop ' + u)

    def op_Phi(self, fr, ins, st):
        raise Unsupported('phi out of place')

    def op_Convert(self, fr, ins, st):
        x = self.val(fr, ins['x'])
        k1 = kind_of(self.prog, ins['xtype'])
        k2 = kind_of(self.prog, ins['type'])
        if k1 == 'int' and k2 == 'int':
            w1, s1 = int_info(self.prog, ins['xtype'])
            w2, s2 = int_info(self.prog, ins['type'])
            return int_convert(x, w1, s1, w2, s2)
        if k1 == 'int' and k2 == 'float':
            x = force(x)
            if isinstance(x, int):
                return float(x)
            w1, s1 = int_info(self.prog, ins['xtype'])
            if w1 != 64 or not s1:
                x = int_convert(x, w1, s1, 64, True)
            if self.fp_mode:
                return FFP(z3.fpSignedToFP(RNE, tobv(x, 64), F64))
            return FInt(x, None)
        if k1 == 'float' and k2 == 'int':
            x = force(x)
            w2, s2 = int_info(self.prog, ins['type'])
            if isinstance(x, float):
                if math.isnan(x) or math.isinf(x):
                    return canon(-(1 << 63), w2, s2)
                return canon(int(x), w2, s2)
            if isinstance(x, FInt):
                return int_convert(x.v, 64, True, w2, s2)
            if isinstance(x, FFP):
                self.notes.add('float->int conversion of a bit-precise value: in-range assumed (checked by harness bounds)')
                return int_convert(z3.fpToSBV(z3.RTZ(), x.t, z3.BitVecSort(64)), 64, True, w2, s2)
            h = self.intr.get('#f2i')
            if h:
                return h(self, x, w2, s2)
            raise Unsupported('float->int on symbolic real')
        if k1 == 'float' and k2 == 'float':
            return x
        if k1 == 'string' and k2 == 'slice':
            if not isinstance(x, str):
                # a formatted (symbolic) string: carried as one opaque token
                oid = self.new_obj(st, [('strtok', x)])
                self.alloc_epoch[oid] = self.nobj
                return Slice(oid, (), 0, 1, 1)
            data = list(x.encode('utf-8'))
            oid = self.new_obj(st, data)
            self.alloc_epoch[oid] = self.nobj
            return Slice(oid, (), 0, len(data), len(data))
        if k1 == 'slice' and k2 == 'string':
            cells = self.slice_cells(st, x)
            if all(isinstance(c, int) for c in cells):
                return bytes(cells).decode('utf-8', 'replace')
            return ('symstr', tuple(cells))
        if k1 == k2:
            return x
        raise Unsupported('convert %s -> %s' % (k1, k2))

    def op_ChangeType(self, fr, ins, st):
        return self.val(fr, ins['x'])

    def op_ChangeInterface(self, fr, ins, st):
        return self.val(fr, ins['x'])

    def op_MakeInterface(self, fr, ins, st):
        return Iface(ins['xtype'], self.val(fr, ins['x']))

    def op_TypeAssert(self, fr, ins, st):
        x = self.val(fr, ins['x'])
        want = ins['asserted']
        wk = self.prog.types[want]['k']
        ok = False
        v = None
        if isinstance(x, Iface):
            if wk == 'iface' or (wk == 'named' and self.prog.under(want)['k'] == 'iface'):
                ok = True
                v = x
            elif x.typ == want:
                ok = True
                v = x.val
        if ins['commaok']:
            return (v if ok else None, ok)
        if not ok:
            self.oblige('panic', st, True, 'interface conversion failed', ins.get('pos', ''))
            raise PathDead()
        return v

    def op_Extract(self, fr, ins, st):
        return self.val(fr, ins['x'])[ins['index']]

    def op_Field(self, fr, ins, st):
        return self.val(fr, ins['x'])[ins['field']]

    def op_FieldAddr(self, fr, ins, st):
        p = self.val(fr, ins['x'])
        if p is None:
            self.oblige('nil', st, True, 'nil pointer dereference', ins.get('pos', ''))
            raise PathDead()
        if isinstance(p, SymChoice):
            return SymChoice([(g, Ptr(a.obj, a.path + (ins['field'],))) for g, a in p.alts])
        return Ptr(p.obj, p.path + (ins['field'],))

    def check_index(self, st, idx, n, pos):
        """bounds obligation for 0 <= idx < n; returns False if the path is dead"""
        idx = force(idx)
        if isinstance(idx, int) and isinstance(n, int):
            if 0 <= idx < n:
                return
            self.oblige('bounds', st, True, 'index out of range [%d] with length %d' % (idx, n), pos)
            raise PathDead()
        inb = b_and(int_cmp('>=', idx, 0, 64, True), int_cmp('<', idx, n, 64, True))
        if inb is True:
            return
        self.oblige('bounds', st, b_not(inb), 'index out of range (symbolic index, length %s)' % (n,), pos, extra=idx)
        if inb is False:
            raise PathDead()
        st.pc = st.pc + (inb,)

    def op_IndexAddr(self, fr, ins, st):
        x = self.val(fr, ins['x'])
        idx = self.index_val(fr, ins)
        pos = ins.get('pos', '')
        if isinstance(x, SymChoice):
            alts = []
            for g, a in x.alts:
                alts.append((g, self.index_addr1(st, a, idx, pos, ins)))
            return SymChoice(alts)
        return self.index_addr1(st, x, idx, pos, ins)

    def index_val(self, fr, ins):
        idx = force(self.val(fr, ins['index']))
        if not isinstance(idx, int):
            w, sg = int_info(self.prog, ins['itype'])
            if w != 64 or not sg:
                if w == 64:
                    raise Unsupported('uint64 symbolic index')
                idx = int_convert(idx, w, sg, 64, True)
        return idx

    def index_addr1(self, st, x, idx, pos, ins):
        xt = self.prog.under(ins['xtype'])
        if xt['k'] != 'slice' and xt['k'] != 'ptr':
            raise Unsupported('IndexAddr on ' + xt['k'])
        if isinstance(ins['index'], dict) or True:
            ik = 'int'
        idx = force(idx)
        if xt['k'] == 'slice':
            if not isinstance(x.len, int):
                h = self.intr.get('#indexaddr_symlen')
                if h is None:
                    raise Unsupported('index into slice of symbolic length')
                return h(self, st, x, idx, pos)
            self.check_index(st, idx, x.len, pos)
            if isinstance(idx, int):
                return Ptr(x.obj, x.path + (x.off + idx,))
            # narrow the window using the cheap range of the index
            lo, n = x.off, x.len
            if isinstance(idx, GSum):
                rng = idx.range(True)
                if rng is not None:
                    a = max(0, rng[0])
                    bnd = min(x.len - 1, rng[1])
                    lo, n = x.off + a, bnd - a + 1
            return Ptr(x.obj, x.path + (SymIdx(int_binop('+', idx, x.off, 64, True), lo, n),))
        # pointer to array
        if x is None:
            self.oblige('nil', st, True, 'nil pointer dereference', pos)
            raise PathDead()
        at = self.prog.under(xt['elem'])
        n = at['len']
        self.check_index(st, idx, n, pos)
        if isinstance(idx, int):
            return Ptr(x.obj, x.path + (idx,))
        return Ptr(x.obj, x.path + (SymIdx(idx, 0, n),))

    def op_Index(self, fr, ins, st):
        x = self.val(fr, ins['x'])
        idx = self.index_val(fr, ins)
        pos = ins.get('pos', '')
        if isinstance(x, str):
            data = x.encode('utf-8')
            self.check_index(st, idx, len(data), pos)
            if isinstance(idx, int):
                return data[idx]
            return LazySel(idx, list(data), 'int', 8, False)
        if isinstance(x, list):
            self.check_index(st, idx, len(x), pos)
            if isinstance(idx, int):
                return x[idx]
            kind = kind_of(self.prog, ins['type'])
            w, sg = int_info(self.prog, ins['type']) if kind == 'int' else (64, True)
            return LazySel(idx, x, kind, w, sg)
        raise Unsupported('Index on %r' % type(x))

    def slice_cells(self, st, s):
        if s.obj is None:
            return []
        arr = tree_get(st.heap[s.obj], s.path)
        return arr[s.off:s.off + s.len]

    def op_Slice(self, fr, ins, st):
        x = self.val(fr, ins['x'])
        lo = self.val(fr, ins['low'])
        hi = self.val(fr, ins['high'])
        mx = self.val(fr, ins['max'])
        pos = ins.get('pos', '')
        xt = self.prog.under(ins['xtype'])
        if isinstance(x, str):
            data = x.encode('utf-8')
            lo = 0 if lo is None else lo
            hi = len(data) if hi is None else hi
            return data[lo:hi].decode('utf-8', 'replace')
        if xt['k'] == 'ptr':
            at = self.prog.under(xt['elem'])
            base = Slice(x.obj, x.path, 0, at['len'], at['len'])
        else:
            base = x
        if isinstance(base, SymChoice):
            raise Unsupported('slicing a symbolic slice choice')
        if not isinstance(base.len, int):
            h = self.intr.get('#slice_symlen')
            if h is None:
                raise Unsupported('slice of symbolic length')
            return h(self, st, base, lo, hi, mx, pos)
        lo = 0 if lo is None else force(lo)
        hi = base.len if hi is None else force(hi)
        if not isinstance(lo, int) or not isinstance(hi, int):
            blk = st.heap.get(base.obj) if base.obj is not None else None
            if isinstance(blk, StreamBlock) and mx is None and isinstance(hi, int) and hi == base.len and isinstance(base.off, int) and base.off == 0:
                # buf[n:] of a byte buffer that only stream reads touch: symbolic offset, bounds as an obligation
                inb = b_and(int_cmp('>=', lo, 0, 64, True), int_cmp('<=', lo, hi, 64, True))
                if inb is not True:
                    self.oblige('bounds', st, b_not(inb), 'slice bounds out of range (symbolic low bound)', pos)
                    if inb is False:
                        raise PathDead()
                    st.pc = st.pc + (inb,)
                return Slice(base.obj, base.path, lo, int_binop('-', hi, lo, 64, True), int_binop('-', base.cap, lo, 64, True))
            raise Unsupported('symbolic slice bounds')
        cap = base.cap if mx is None else mx
        if not (0 <= lo <= hi <= cap <= base.cap):
            self.oblige('bounds', st, True, 'slice bounds out of range [%d:%d] with capacity %d' % (lo, hi, base.cap), pos)
            raise PathDead()
        return Slice(base.obj, base.path, base.off + lo, hi - lo, cap - lo)

    def op_Store(self, fr, ins, st):
        p = self.val(fr, ins['addr'])
        v = self.val(fr, ins['val'])
        self.store(st, p, v, True, ins.get('pos', ''))

    def op_MakeClosure(self, fr, ins, st):
        f = self.val(fr, ins['fn'])
        return Closure(f.name, [self.val(fr, b) for b in ins['bindings']])

    def op_Defer(self, fr, ins, st):
        fr.defers.append(ins)
        # arguments are evaluated now
        fr.env['#defer%d' % len(fr.defers)] = [self.val(fr, a) for a in ins['args']]

    def op_RunDefers(self, fr, ins, st):
        while fr.defers:
            d = fr.defers.pop()
            args = fr.env.get('#defer%d' % (len(fr.defers) + 1))
            self.do_call(fr, d, st, args_override=args)

    def op_Call(self, fr, ins, st):
        return self.do_call(fr, ins, st)

    def op_Go(self, fr, ins, st):
        h = self.intr.get('#go')
        if h is None:
            raise Unsupported('go statement')
        return h(self, fr, st, ins)

    def op_Send(self, fr, ins, st):
        h = self.intr.get('#send')
        if h is None:
            raise Unsupported('channel send')
        return h(self, fr, st, self.val(fr, ins['chan']), self.val(fr, ins['x']), ins)

    def op_MakeChan(self, fr, ins, st):
        h = self.intr.get('#makechan')
        if h is None:
            raise Unsupported('make chan')
        return h(self, fr, st, ins)

    def op_MakeMap(self, fr, ins, st):
        raise Unsupported('maps')

    # ---------------------------------------------------------------- calls
    def do_call(self, fr, ins, st, args_override=None):
        args = args_override if args_override is not None else [self.val(fr, a) for a in ins['args']]
        if ins.get('invoke'):
            recv = self.val(fr, ins['recv'])
            return self.invoke(fr, st, recv, ins['method'], args, ins)
        f = self.val(fr, ins['fn'])
        return self.call_value(fr, st, f, args, ins)

    def call_value(self, fr, st, f, args, ins):
        if isinstance(f, tuple) and f[0] == 'builtin':
            return self.builtin(fr, st, f[1], args, ins)
        if isinstance(f, SymChoice):
            raise Unsupported('call through symbolic function value')
        if isinstance(f, Closure):
            name, bindings = f.fn, f.bindings
        elif isinstance(f, FuncRef):
            name, bindings = f.name, None
        elif f is None:
            self.oblige('nil', st, True, 'call of nil function', ins.get('pos', ''))
            raise PathDead()
        else:
            raise Unsupported('call of %r' % (f,))
        return self.call_named(fr, st, name, args, ins, bindings)

    def call_named(self, fr, st, name, args, ins, bindings=None):
        h = self.intr.get(name)
        if h is None:
            short = name.rsplit('.', 1)[-1]
            if short.startswith('v') and ('#' + short) in self.intr:
                h = self.intr['#' + short]
        if h is not None:
            return h(self, fr, st, args, ins)
        fn = self.prog.funcs.get(name)
        if (fn is None or not fn.blocks) and name.endswith('.init'):
            return None
        if fn is None or not fn.blocks:
            raise Unsupported('call of external function %s (no stub)' % name)
        s2, vals_ = self.call_fn(fn, args, st, bindings)
        if s2 is None:
            raise PathDead()
        # the callee worked on (and possibly merged) the state: adopt it
        st.heap = s2.heap
        st.pc = s2.pc
        if len(fn.rets) == 0:
            return None
        if len(fn.rets) == 1:
            return vals_[0]
        return vals_

    def invoke(self, fr, st, recv, method, args, ins):
        if recv is None:
            self.oblige('nil', st, True, 'method call on nil interface', ins.get('pos', ''))
            raise PathDead()
        if isinstance(recv, SymChoice):
            raise Unsupported('invoke on symbolic interface choice')
        if isinstance(recv, Iface):
            if isinstance(recv.val, Opaque):
                h = self.intr.get('#opaque.' + recv.val.kind + '.' + method)
                if h is None:
                    raise Unsupported('method %s on opaque %s' % (method, recv.val.kind))
                return h(self, fr, st, [recv.val] + args, ins)
            key = recv.typ + '|' + method
            name = self.prog.methods.get(key)
            if name is None:
                raise Unsupported('no method %s' % key)
            return self.call_named(fr, st, name, [recv.val] + args, ins)
        raise Unsupported('invoke on %r' % (recv,))

    def builtin(self, fr, st, name, args, ins):
        if name == 'len':
            x = args[0]
            if isinstance(x, Slice):
                return x.len
            if isinstance(x, str):
                return len(x.encode('utf-8'))
            if isinstance(x, list):
                return len(x)
            if isinstance(x, SymChoice):
                res = None
                for g, a in reversed(x.alts):
                    ln = a.len if isinstance(a, Slice) else None
                    if ln is None:
                        res = None
                        break
                    res = ln if res is None else int_ite(g, ln, res, 64)
                if res is not None:
                    return res
            h = self.intr.get('#len')
            if h:
                return h(self, st, x)
            raise Unsupported('len of %r' % (x,))
        if name == 'cap':
            return args[0].cap
        if name == 'append':
            s, t = args
            a = self.slice_cells(st, s)
            if isinstance(t, str):
                b = list(t.encode('utf-8'))
            else:
                b = self.slice_cells(st, t)
            if s.obj is not None and isinstance(s.len, int) and len(a) + len(b) <= s.cap:
                # Go semantics: enough capacity -> the elements are written into the existing backing array
                if len(b) > 0:
                    if self.watch is not None and not (isinstance(s.obj, str) and self.alloc_epoch.get(s.obj, 0) >= self.watch):
                        key = (s.obj, ins.get('pos', ''))
                        if key not in self.effect_seen:
                            self.effect_seen.add(key)
                            self.oblige('effect', st, True, 'store to memory that existed before the call (append into spare capacity of a caller slice)', ins.get('pos', ''))
                    arr = tree_get(st.heap[s.obj], s.path)
                    newarr = list(arr)
                    newarr[s.off + s.len:s.off + s.len + len(b)] = [force(x) if isinstance(x, LazySel) else x for x in b]
                    st.heap[s.obj] = tree_set(st.heap[s.obj], s.path, newarr)
                return Slice(s.obj, s.path, s.off, s.len + len(b), s.cap)
            new = list(a) + list(b)
            oid = self.new_obj(st, new)
            self.alloc_epoch[oid] = self.nobj
            # growth policy of the runtime is not modelled: the new capacity is just what is needed (or the old one if larger)
            return Slice(oid, (), 0, len(new), max(len(new), 2 * s.cap if s.cap else len(new)))
        if name == 'copy':
            d, s = args
            if isinstance(s, str):
                src = list(s.encode('utf-8'))
            else:
                src = self.slice_cells(st, s)
            n = min(d.len, len(src))
            for i in range(n):
                self.store(st, Ptr(d.obj, d.path + (d.off + i,)), src[i], True, ins.get('pos', ''))
            return n
        if name == 'close':
            h = self.intr.get('#close')
            if h:
                return h(self, fr, st, args[0], ins)
            raise Unsupported('close')
        if name == 'real':
            return args[0].re
        if name == 'imag':
            return args[0].im
        if name == 'complex':
            return Cx(args[0], args[1])
        if name in ('print', 'println'):
            return None
        if name == 'recover':
            # panicking paths end at the panic (recorded as obligations); on surviving paths there is nothing to recover
            return None
        raise Unsupported('builtin ' + name)

    def item_names(self, st):
        sl = st.heap['g:github.com/Trisia/randomness.TestMethodArr']
        arr = tree_get(st.heap[sl.obj], sl.path)[sl.off:sl.off + sl.len]
        return [a[0] for a in arr]

    # ---------------------------------------------------------------- set-up
    def init_foreign_errors(self, st):
        st.heap['g:io.EOF'] = Iface('*errors.errorString', Opaque('error', ('id', 1)))
        st.heap['g:io.ErrUnexpectedEOF'] = Iface('*errors.errorString', Opaque('error', ('id', 2)))

    def init_globals(self, st, pkgs):
        for name, g in self.prog.globals.items():
            st.heap['g:' + name] = zero_value(self.prog, g['type'])
            self.alloc_epoch['g:' + name] = 0
        self.init_foreign_errors(st)
        for p in pkgs:
            fn = self.prog.funcs.get(p + '.init')
            if fn is not None and fn.blocks:
                s2, _ = self.call_fn(fn, [], st)
                if s2 is None:
                    raise Unsupported('init of %s died' % p)
                st.heap = s2.heap
                st.pc = s2.pc


class PathDead(Exception):
    pass
