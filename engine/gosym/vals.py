"""Value domain of the symbolic executor.

ints   : python int (canonical for the Go type) | GSum (linear form over indicator guards,
         exact modulo 2^w) | z3 BitVecRef
bools  : python bool | z3 BoolRef
floats : python float | FInt (integer-valued float carried as an int value) | FReal (z3 Real)
"""
import z3
from fractions import Fraction

# ---------------------------------------------------------------------------
# helpers on z3 bools


def is_sym(v):
    return isinstance(v, (z3.ExprRef, GSum, FInt, FReal, LazySel, Cx, FFP))


def b_not(a):
    if isinstance(a, bool):
        return not a
    if z3.is_not(a):
        return a.arg(0)
    return z3.Not(a)


def b_and(a, b):
    if isinstance(a, bool):
        return b if a else False
    if isinstance(b, bool):
        return a if b else False
    if a.eq(b):
        return a
    return z3.And(a, b)


def b_or(a, b):
    if isinstance(a, bool):
        return True if a else b
    if isinstance(b, bool):
        return True if b else a
    if a.eq(b):
        return a
    return z3.Or(a, b)


def b_ite(c, a, b):
    if isinstance(c, bool):
        return a if c else b
    if isinstance(a, bool) and isinstance(b, bool):
        if a == b:
            return a
        return c if a else b_not(c)
    if isinstance(a, bool):
        return b_or(c, b) if a else b_and(b_not(c), b)
    if isinstance(b, bool):
        return b_or(b_not(c), a) if b else b_and(c, a)
    if a.eq(b):
        return a
    # ite(x == y, a, b) with {a, b} = {x, y}: where the guard holds both have the same value, so the result is b
    # (`if bit == cur { } else { cur = bit }` leaves cur == bit whatever the branch)
    e, neg = (c.arg(0), True) if z3.is_not(c) else (c, False)
    if z3.is_app_of(e, z3.Z3_OP_XOR) and e.num_args() == 2:
        neg = not neg
    elif not (z3.is_eq(e) and e.num_args() == 2):
        e = None
    if e is not None:
        x, y = e.arg(0), e.arg(1)
        if (a.eq(x) and b.eq(y)) or (a.eq(y) and b.eq(x)):
            return a if neg else b
    return z3.If(c, a, b)


def to_z3bool(a):
    if isinstance(a, bool):
        return z3.BoolVal(a)
    return a


# ---------------------------------------------------------------------------
# integer types

INT_TYPES = {
    'int': (64, True), 'int64': (64, True), 'int32': (32, True), 'int16': (16, True), 'int8': (8, True),
    'uint': (64, False), 'uint64': (64, False), 'uint32': (32, False), 'uint16': (16, False),
    'uint8': (8, False), 'byte': (8, False), 'uintptr': (64, False), 'rune': (32, True),
    'untyped int': (64, True), 'untyped rune': (32, True),
}


def canon(v, w, signed):
    v &= (1 << w) - 1
    if signed and v >> (w - 1):
        v -= 1 << w
    return v


_guard_info = {}   # guard ast id -> ('eq', value(GSum|bv), j)  metadata for increment matching
_guard_keep = {}   # keeps guard asts alive so ids stay unique


class GSum(object):
    """const + sum coeff_i * [guard_i]   (mod 2^w).  terms: {guard_id: (guard, coeff)} coeff unsigned mod 2^w."""
    __slots__ = ('w', 'const', 'terms', '_bv', '_key')

    def __init__(self, w, const, terms):
        self.w = w
        self.const = const & ((1 << w) - 1)
        self.terms = terms
        self._bv = None
        self._key = None

    def key(self):
        if self._key is None:
            self._key = (self.w, self.const, tuple(sorted((k, c) for k, (g, c) in self.terms.items())))
        return self._key

    def bv(self):
        if self._bv is None and self.w == 64:
            rng = self.range(True)
            if rng is not None:
                # small values: add at the width the range needs and sign-extend (much cheaper to bit-blast)
                nb = max(abs(rng[0]), abs(rng[1])).bit_length() + 2
                if nb < 40:
                    acc = None
                    for k, (g, c) in sorted(self.terms.items(), key=lambda kv: kv[0]):
                        t = z3.If(g, z3.BitVecVal(canon(c, 64, True), nb), z3.BitVecVal(0, nb))
                        acc = t if acc is None else acc + t
                    if self.const:
                        acc = acc + z3.BitVecVal(canon(self.const, 64, True), nb)
                    self._bv = z3.SignExt(64 - nb, acc)
        if self._bv is None:
            w = self.w
            items = sorted(self.terms.items(), key=lambda kv: kv[0])
            # binary shaped values: build by concatenation-free sum anyway
            acc = None
            for k, (g, c) in items:
                t = z3.If(g, z3.BitVecVal(c, w), z3.BitVecVal(0, w))
                acc = t if acc is None else acc + t
            if acc is None:
                acc = z3.BitVecVal(self.const, w)
            elif self.const:
                acc = acc + z3.BitVecVal(self.const, w)
            self._bv = acc
        return self._bv

    def binary_shape(self):
        """if value == sum 2^k [g_k] with distinct k and const 0: return {k: guard} else None"""
        if self.const != 0:
            return None
        r = {}
        for k, (g, c) in self.terms.items():
            if c & (c - 1) or c == 0:
                return None
            b = c.bit_length() - 1
            if b in r:
                return None
            r[b] = g
        return r

    def max_abs(self, signed):
        """cheap upper bound on |value| ignoring wrap; None if it may wrap"""
        m = 1 << self.w
        lo = hi = canon(self.const, self.w, signed)
        for g, c in self.terms.values():
            cc = canon(c, self.w, signed)
            if cc > 0:
                hi += cc
            else:
                lo += cc
        lim = (m >> 1) if signed else m
        if hi >= lim or lo < (-lim if signed else 0):
            return None
        return max(abs(lo), abs(hi))

    def range(self, signed):
        lo = hi = canon(self.const, self.w, signed)
        for g, c in self.terms.values():
            cc = canon(c, self.w, signed)
            if cc > 0:
                hi += cc
            else:
                lo += cc
        m = 1 << self.w
        lim = (m >> 1) if signed else m
        if hi >= lim or lo < (-lim if signed else 0):
            return None
        return lo, hi


_PIN = []


def pin(*ts):
    """keep z3 terms alive whose AST id is used as a cache key (z3 re-uses the ids of freed terms)"""
    _PIN.extend(ts)


def gs_indicator(g, w, coeff=1):
    """[g]*coeff as GSum; g z3 Bool"""
    mask = (1 << w) - 1
    coeff &= mask
    k = g.get_id()
    _guard_keep[k] = g
    return GSum(w, 0, {k: (g, coeff)})


def gs_from(v, w):
    if isinstance(v, GSum):
        if v.w != w:
            # a merge of untyped constants (phi of literals) defaults to 64 bits: re-wrap to the width of the use
            m = (1 << w) - 1
            terms = {}
            for k, (g, c) in v.terms.items():
                cc = canon(c, v.w, True) & m
                if cc:
                    terms[k] = (g, cc)
            return GSum(w, canon(v.const, v.w, True) & m, terms)
        return v
    if isinstance(v, int):
        return GSum(w, v, {})
    return None


def _gs_add(a, b, sign=1):
    """GSum x GSum -> GSum"""
    w = a.w
    mask = (1 << w) - 1
    if sign == 1 and len(a.terms) < len(b.terms):
        a, b = b, a
    if not b.terms:
        if b.const == 0:
            return a
        return GSum(w, (a.const + sign * b.const) & mask, a.terms)
    terms = dict(a.terms)
    for k, (g, c) in b.terms.items():
        t = terms.get(k)
        if t is not None:
            nc = (t[1] + sign * c) & mask
            if nc == 0:
                del terms[k]
            else:
                terms[k] = (g, nc)
        else:
            terms[k] = (g, (sign * c) & mask)
    return GSum(w, (a.const + sign * b.const) & mask, terms)


def _const_or_self(self):
    if not self.terms:
        return self.const
    return self


GSum.const_or_self = _const_or_self


def gs_add(a, b, sign=1):
    return _gs_add(a, b, sign).const_or_self()


def _gs_scale(a, c):
    w = a.w
    mask = (1 << w) - 1
    c &= mask
    terms = {}
    for k, (g, cc) in a.terms.items():
        nc = (cc * c) & mask
        if nc:
            terms[k] = (g, nc)
    return GSum(w, (a.const * c) & mask, terms)


def gs_scale(a, c):
    return _gs_scale(a, c).const_or_self()


def gs_mul(a, b):
    """full product (only for small forms)"""
    w = a.w
    res = GSum(w, a.const * b.const, {})
    if b.const:
        res = _gs_add(res, _gs_scale(GSum(w, 0, a.terms), b.const))
    if a.const:
        res = _gs_add(res, _gs_scale(GSum(w, 0, b.terms), a.const))
    for k1, (g1, c1) in a.terms.items():
        for k2, (g2, c2) in b.terms.items():
            g = g1 if k1 == k2 else (z3.And(g1, g2) if k1 < k2 else z3.And(g2, g1))
            res = _gs_add(res, gs_indicator(g, w, c1 * c2))
    return res.const_or_self()


# ---------------------------------------------------------------------------
# lazy select: value of cells[idx] for a symbolic idx


class LazySel(object):
    __slots__ = ('idx', 'cells', 'kind', 'w', 'signed', '_forced')

    def __init__(self, idx, cells, kind, w=64, signed=True):
        self.idx = idx        # int value (GSum | bv), index relative to cells[0]
        self.cells = cells
        self.kind = kind      # 'int' | 'float' | 'bool'
        self.w = w
        self.signed = signed
        self._forced = None


# ---------------------------------------------------------------------------
# floats


class FInt(object):
    """float64 value that is exactly the integer `v` (python int never stored here; GSum | bv signed 64)"""
    __slots__ = ('v', 'bound')

    def __init__(self, v, bound):
        self.v = v
        self.bound = bound  # |value| <= bound (python int)


class FReal(object):
    __slots__ = ('t',)

    def __init__(self, t):
        self.t = t


class FFP(object):
    """bit-precise binary64 value (z3 FloatingPoint term); used only in fp-mode harnesses"""
    __slots__ = ('t',)

    def __init__(self, t):
        self.t = t


class Cx(object):
    __slots__ = ('re', 'im')

    def __init__(self, re, im):
        self.re = re
        self.im = im


def frac_of_float(f):
    return Fraction(f)


def realval(f):
    """exact z3 real of a python float"""
    if isinstance(f, int):
        return z3.RealVal(f)
    fr = Fraction(f)
    return z3.RealVal(str(fr.numerator)) / z3.RealVal(str(fr.denominator)) if fr.denominator != 1 else z3.RealVal(str(fr.numerator))


def realq(fr):
    return z3.Q(fr.numerator, fr.denominator)
