"""Loading of the SSA JSON produced by engine/ssajson and CFG analysis."""
import json


class Fn(object):
    __slots__ = ('name', 'pkg', 'params', 'ptypes', 'freevars', 'rets', 'blocks', 'hash', 'pos',
                 'ipdom', 'loopctl', 'nphi', 'reach')


class Program(object):
    def __init__(self, path):
        d = json.load(open(path))
        self.types = d['types']
        self.globals = d['globals']
        self.methods = d['methods']
        self.files = d.get('files', [])
        self.funcs = {}
        for name, f in d['funcs'].items():
            fn = Fn()
            fn.name = name
            fn.pkg = f.get('pkg', '')
            fn.params = f.get('params') or []
            fn.ptypes = f.get('ptypes') or []
            fn.freevars = f.get('freevars') or []
            fn.rets = f.get('rets') or []
            fn.blocks = f.get('blocks')
            fn.hash = f.get('hash', '')
            fn.pos = f.get('pos', '')
            if fn.blocks:
                analyse(fn)
            self.funcs[name] = fn

    def under(self, tid):
        t = self.types[tid]
        while t['k'] == 'named':
            u = t['under']
            if self.types[u] is t:
                return {'k': 'iface'}    # 'any' (alias of interface{})
            t = self.types[u]
        return t

    def find(self, suffix):
        """function whose full name ends with suffix (unique)"""
        c = [n for n in self.funcs if n.endswith(suffix)]
        if len(c) != 1:
            raise KeyError('%s: %r' % (suffix, c))
        return self.funcs[c[0]]


def analyse(fn):
    blocks = fn.blocks
    n = len(blocks)
    EXIT = n
    succs = [list(b['succs']) for b in blocks]
    for i, b in enumerate(blocks):
        last = b['instrs'][-1]['op'] if b['instrs'] else ''
        if last == 'Return':
            succs[i] = [EXIT]
        elif last == 'Panic':
            succs[i] = []
    succs.append([])
    # reachability (for loop control detection)
    reach = [None] * (n + 1)
    for i in range(n + 1):
        seen = set()
        stack = list(succs[i])
        while stack:
            x = stack.pop()
            if x in seen:
                continue
            seen.add(x)
            stack.extend(succs[x])
        reach[i] = seen
    fn.reach = reach
    # post-dominators by iterative data-flow (small CFGs)
    full = set(range(n + 1))
    pdom = [set(full) for _ in range(n + 1)]
    pdom[EXIT] = {EXIT}
    changed = True
    while changed:
        changed = False
        for i in range(n - 1, -1, -1):
            ss = succs[i]
            if not ss:
                new = set(full)   # panic blocks do not constrain post-dominance
            else:
                new = set(full)
                for s in ss:
                    new &= pdom[s]
                new = new | {i}
            if new != pdom[i]:
                pdom[i] = new
                changed = True
    ipdom = [None] * n
    for i in range(n):
        cands = pdom[i] - {i}
        # the immediate post-dominator is the candidate that is post-dominated by all the others
        best = None
        for c in cands:
            if all((o in pdom[c]) for o in cands):
                best = c
                break
        ipdom[i] = None if (best is None or best == EXIT) else best
    fn.ipdom = ipdom
    # loop controlling Ifs: block in a cycle, with a successor from which the block is unreachable,
    # or any If inside a cycle (conservative: we check feasibility there)
    fn.loopctl = [False] * n
    for i, b in enumerate(blocks):
        if b['instrs'] and b['instrs'][-1]['op'] == 'If' and i in reach[i]:
            fn.loopctl[i] = any(i not in reach[s] for s in b['succs'])
    fn.nphi = []
    for b in blocks:
        k = 0
        for ins in b['instrs']:
            if ins['op'] == 'Phi':
                k += 1
            else:
                break
        fn.nphi.append(k)
