#!/usr/bin/env python3
"""Regenerate /verif/MANIFEST.json from the property table (engine/gosym/props.py) and properties.jsonl."""
import json, os, sys
HERE = os.path.dirname(os.path.abspath(__file__))
VERIF = os.path.dirname(HERE)
sys.path.insert(0, os.path.join(HERE, 'gosym'))
import props

ids = [json.loads(l)['id'] for l in open(os.path.join(VERIF, 'properties.jsonl'))]
NA = props.NOT_APPLICABLE
checks = []
for pid in ids:
    if pid in NA or pid not in props.PROPS:
        continue
    P = props.PROPS[pid]
    checks.append({
        'property_id': pid,
        'quick_cmd': './check %s --tier quick' % pid,
        'thorough_cmd': './check %s --tier thorough' % pid,
        'evidence_file': 'evidence/%s.json' % pid,
        'replay_cmd_template': './check %s --replay {path}' % pid,
        'engine': 'gosym',
        'level_claimed': {
            'category': 'model_checking',
            'text': 'Bounded symbolic checking of the real code: the Go functions the property is anchored in are translated from go/ssa and executed symbolically together with an in-package harness; every assertion becomes an SMT query (z3) that is unsat for ALL inputs inside the bound or yields a model that is replayed natively before it is reported. Bound (quick): %s. Bound (thorough): %s. Outside the claim: %s' % (P['bounds']['quick'], P['bounds']['thorough'], P.get('outside', '')),
            'design_ref': 'DESIGN.md section 5 (%s)' % pid,
        },
        'level_note': 'Trusted base: go/ssa (x/tools v0.29.0) + the gosym translator (validated against native runs via replay), z3 5.1; ' + '; '.join(P.get('assumptions', [])),
        'technique': P.get('technique', 'solver-based bounded checking: go/ssa -> symbolic execution with state merging -> z3 (QF_BV / QF_NRA+UF), counterexamples replayed natively'),
    })
na = [{'property_id': pid, 'reason': NA[pid]} for pid in ids if pid in NA]
na += [{'property_id': pid, 'reason': 'check not built yet (work in progress)'} for pid in ids if pid not in NA and pid not in props.PROPS]
m = {
    'version': 1,
    'setup_cmd': 'cd /verif/engine/ssajson && GOFLAGS=-mod=mod GOPROXY=off GOSUMDB=off GOTOOLCHAIN=local go build -o /verif/bin/ssajson . && /verif/harness/gen.sh && /opt/veriftools/pyvenv/bin/python3 -m compileall -q /verif/engine',
    'hooks': {
        'guard': 'verif',
        'enable': 'no source hooks: harness files (/verif/harness/<pkg>/zz_verif_*.go) are injected in-package through go/packages Overlay (symbolic run) and go test -overlay (native replay); /repo is never modified by a check',
        'baseline_off_cmd': 'cd /repo && GOFLAGS=-mod=mod GOPROXY=off go test -vet=off -count=1 -timeout 25m ./...',
        'source_commits': [],
        'add_only': True,
    },
    'engines': [
        {'name': 'gosym', 'path': 'engine/gosym', 'serves_properties': [c['property_id'] for c in checks],
         'kind_free_text': 'own go/ssa -> SMT symbolic executor (Python + z3): bit-vector machine integers, linear-form counters with guard pairing, exact-real float tails with uninterpreted library functions, state merging at post-dominators, bounds checks as assertions, native replay of models'},
        {'name': 'ssajson', 'path': 'engine/ssajson', 'serves_properties': [c['property_id'] for c in checks],
         'kind_free_text': 'Go program (golang.org/x/tools v0.29.0 go/packages + go/ssa) that loads /repo with the harness overlay and dumps SSA as JSON on every run'},
    ],
    'checks': checks,
    'notes': 'Repairs of genuine defects found by the checks are unguarded "fix:" commits in /repo, listed in known_findings.txt. See DESIGN.md.',
    'not_applicable': na,
}
json.dump(m, open(os.path.join(VERIF, 'MANIFEST.json'), 'w'), indent=1, ensure_ascii=False)
print('checks:', [c['property_id'] for c in checks], 'n/a:', [x['property_id'] for x in na])
