#!/usr/bin/env python3
"""seedcheck.py <ID> [--props C01,C15] [--tier quick|thorough] [--skip-suite]

Confirms a seeded change produced by a sub-agent in /tmp/seed/<ID>/_out (patch.diff + demonstration) in that scratch
worktree: the patch applies, builds, the existing suite passes with it, the demonstration fails with it and passes
without it. Then applies the patch to /repo, runs the registered checks and reverts. Results go to
/verif/seeded/<ID>/ (patch.diff, demo, NOTES.md, meta.json)."""
import os, sys, json, shutil, subprocess, glob, time

ENV = dict(os.environ, GOFLAGS='-mod=mod', GOPROXY='off', GOSUMDB='off', GOTOOLCHAIN='local')


def sh(cmd, cwd=None, timeout=3000):
    r = subprocess.run(cmd, cwd=cwd, env=ENV, shell=isinstance(cmd, str), stdout=subprocess.PIPE, stderr=subprocess.STDOUT,
                       universal_newlines=True, timeout=timeout)
    return r.returncode, r.stdout


def main():
    import argparse
    ap = argparse.ArgumentParser()
    ap.add_argument('id')
    ap.add_argument('--props', default='')
    ap.add_argument('--tier', default='quick')
    ap.add_argument('--skip-suite', action='store_true')
    ap.add_argument('--name', default='')
    ap.add_argument('--root', default='/tmp/seed')
    a = ap.parse_args()
    sid = a.id
    wt = '%s/%s' % (a.root, sid)
    out = os.path.join(wt, '_out')
    name = a.name or sid
    dest = '/verif/seeded/%s' % name
    os.makedirs(dest, exist_ok=True)
    patch = os.path.join(out, 'patch.diff')
    meta = {'seed': name, 'breaks_property': sid, 'ran': []}
    demos = [f for f in glob.glob(os.path.join(out, '*')) if not f.endswith('patch.diff') and not f.endswith('NOTES.md')]
    # where do the demo files live in the worktree?
    demo_rel = []
    for d in demos:
        base = os.path.basename(d)
        rc, found = sh('git ls-files --others --exclude-standard; git ls-files -m', cwd=wt)
        for line in found.splitlines():
            if os.path.basename(line) == base and not line.startswith('_out'):
                demo_rel.append(line)
    demo_rel = sorted(set(demo_rel))
    mp0 = os.path.join(dest, 'meta.json')
    if not demo_rel and os.path.exists(mp0):
        # re-evaluation: the worktree was cleaned by the first run; the demonstration is restored from _out
        demo_rel = json.load(open(mp0)).get('demo_rel', [])
        for rel in demo_rel:
            src = os.path.join(out, os.path.basename(rel))
            if os.path.exists(src):
                os.makedirs(os.path.dirname(os.path.join(wt, rel)) or wt, exist_ok=True)
                shutil.copy(src, os.path.join(wt, rel))
    meta['demo_rel'] = demo_rel
    stash = '%s/%s.demo' % (a.root, sid)
    shutil.rmtree(stash, ignore_errors=True)
    os.makedirs(stash)
    for rel in demo_rel:
        os.makedirs(os.path.dirname(os.path.join(stash, rel)), exist_ok=True)
        shutil.copy(os.path.join(wt, rel), os.path.join(stash, rel))
    # clean tree
    sh('git checkout -- . && git clean -fdq -e _out', cwd=wt)
    rc, o = sh('git apply --check %s && git apply %s' % (patch, patch), cwd=wt)
    meta['patch_applies'] = rc == 0
    rc, o = sh('go build ./...', cwd=wt)
    meta['builds'] = rc == 0
    if not a.skip_suite:
        t = time.time()
        rc, o = sh('go test -vet=off -count=1 -timeout 25m ./...', cwd=wt)
        meta['suite_passes_with_patch'] = rc == 0
        meta['suite_s'] = round(time.time() - t)
        meta['ran'].append('go test -vet=off -count=1 ./...   (patch applied) -> exit %d' % rc)
        sh('git checkout -- data/data.bin', cwd=wt)
    # demo with patch
    for rel in demo_rel:
        shutil.copy(os.path.join(stash, rel), os.path.join(wt, rel))
    pkgs = sorted(set('./' + os.path.dirname(r) for r in demo_rel)) or ['./...']
    runpat = 'Seed|seed|Demo|demo'
    rc1, o1 = sh('go test -vet=off -count=1 -run "%s" %s' % (runpat, ' '.join(pkgs)), cwd=wt)
    meta['demo_fails_with_patch'] = rc1 != 0
    meta['ran'].append('go test -run "%s" %s (patch applied) -> exit %d' % (runpat, ' '.join(pkgs), rc1))
    sh('git apply -R %s' % patch, cwd=wt)
    rc2, o2 = sh('go test -vet=off -count=1 -run "%s" %s' % (runpat, ' '.join(pkgs)), cwd=wt)
    meta['demo_passes_without_patch'] = rc2 == 0
    meta['ran'].append('go test -run "%s" %s (patch reverted) -> exit %d' % (runpat, ' '.join(pkgs), rc2))
    meta['demo_output_with_patch_tail'] = o1[-600:]
    sh('git checkout -- . && git clean -fdq -e _out', cwd=wt)
    # our checks against the patch in /repo
    props = [p for p in a.props.split(',') if p] or [sid]
    REPO = '/tmp/seedrepo'
    sh('git -C %s checkout -q --detach %s' % (REPO, subprocess.check_output(['git', '-C', '/repo', 'rev-parse', 'HEAD'], universal_newlines=True).strip()))
    rc, o = sh('git -C %s status --short' % REPO)
    if o.strip():
        print('REPO NOT CLEAN, aborting', o)
        sys.exit(2)
    rc, o = sh('git -C %s apply %s' % (REPO, patch))
    meta['applies_to_repo'] = rc == 0
    meta['checks'] = {}
    try:
        if rc == 0:
            for p in props:
                t = time.time()
                rc, o = sh('VERIF_REPO=%s /verif/check %s --tier %s --no-evidence' % (REPO, p, a.tier), cwd='/verif', timeout=7200)
                viol = [l for l in o.splitlines() if l.startswith('VIOLATION')]
                inc = [l for l in o.splitlines() if l.startswith('INCONCLUSIVE') or l.startswith('CHECK-ERROR')]
                meta['checks'][p + ':' + a.tier] = {'exit': rc, 'violations': len(viol), 'inconclusive': len(inc), 'wall_s': round(time.time() - t),
                                                     'first': (viol or inc or [''])[0][:300], 'summary': o.strip().splitlines()[-1][:300] if o.strip() else ''}
    finally:
        sh('git -C %s checkout -- .' % REPO)
    meta['detected'] = any(c['exit'] == 1 and c['violations'] > 0 for c in meta['checks'].values())
    shutil.copy(patch, os.path.join(dest, 'patch.diff'))
    for d in demos:
        shutil.copy(d, dest)
    if os.path.exists(os.path.join(out, 'NOTES.md')):
        shutil.copy(os.path.join(out, 'NOTES.md'), dest)
    old = {}
    mp = os.path.join(dest, 'meta.json')
    if os.path.exists(mp):
        old = json.load(open(mp))
        oc = old.get('checks', {})
        oc.update(meta['checks'])
        meta['checks'] = oc
        for k in ('suite_passes_with_patch', 'suite_s'):
            if k not in meta and k in old:
                meta[k] = old[k]
        meta['detected'] = any(c['exit'] == 1 and c['violations'] > 0 for c in meta['checks'].values())
    json.dump(meta, open(mp, 'w'), indent=1, ensure_ascii=False)
    print(json.dumps({k: v for k, v in meta.items() if k not in ('ran', 'demo_output_with_patch_tail')}, indent=1, ensure_ascii=False))


if __name__ == '__main__':
    main()
