#!/usr/bin/env python3
"""check <ID> [--tier quick|thorough] [--replay file] [--only substr] [--nproc N] [--keep]

Decides one property by symbolic execution of /repo's current source (go/ssa -> gosym -> z3).
Exit 0: held on everything explored; exit 1 + 'VIOLATION property=<id> replay=<path>' otherwise.
"""
import os
import sys
import json
import time
import shutil
import atexit
import hashlib
import tempfile
import subprocess

HERE = os.path.dirname(os.path.abspath(__file__))
VERIF = os.path.dirname(HERE)
sys.path.insert(0, os.path.join(HERE, 'gosym'))
REPO = os.environ.get('VERIF_REPO', '/repo')
GOENV = dict(os.environ, GOFLAGS='-mod=mod', GOPROXY='off', GOSUMDB='off', GOTOOLCHAIN='local')
DIRMAP = {'root': '', 'detect': 'detect', 'fft': 'fft', 'rddetector': 'tools/rddetector', 'rdgen': 'tools/rdgen'}


def sh(cmd, **kw):
    return subprocess.run(cmd, stdout=subprocess.PIPE, stderr=subprocess.STDOUT, universal_newlines=True, **kw)


def ensure_dumper():
    binp = os.path.join(VERIF, 'bin', 'ssajson')
    src = os.path.join(HERE, 'ssajson', 'main.go')
    if not os.path.exists(binp) or os.path.getmtime(binp) < os.path.getmtime(src):
        os.makedirs(os.path.dirname(binp), exist_ok=True)
        r = sh(['go', 'build', '-o', binp, '.'], cwd=os.path.join(HERE, 'ssajson'), env=GOENV)
        if r.returncode != 0:
            print(r.stdout)
            raise SystemExit('cannot build ssajson')
    return binp


def dump_ssa(scratch):
    out = os.path.join(scratch, 'ssa.json')
    r = sh([ensure_dumper(), '-repo', REPO, '-harness', os.path.join(VERIF, 'harness'), '-out', out,
            '-std', 'io.ReadAtLeast,io.ReadFull'], env=GOENV)
    if r.returncode != 0:
        print(r.stdout)
        raise SystemExit('ssa dump failed (does /repo build?)')
    return out


def overlay_file(scratch, scripted=False):
    ov = {}
    for sub, rel in DIRMAP.items():
        d = os.path.join(VERIF, 'harness', sub)
        for f in sorted(os.listdir(d)):
            if f.endswith('.go'):
                ov[os.path.join(REPO, rel, f)] = os.path.join(d, f)
    ovd = os.path.join(VERIF, 'harness', 'detect_overlay')
    for f in sorted(os.listdir(ovd)) if scripted else []:
        if f.endswith('.go'):
            ov[os.path.join(REPO, 'detect', f)] = os.path.join(ovd, f)
    p = os.path.join(scratch, 'overlay.json')
    json.dump({'Replace': ov}, open(p, 'w'))
    return p


def native_replay(scratch, pkg, record_path, timeout=180, scripted=False, race=False):
    """run the harness natively on a record. returns (failed, output)"""
    ov = overlay_file(scratch, scripted)
    env = dict(GOENV, VERIF_REPLAY=record_path)
    r = sh(['go', 'test', '-vet=off', '-count=1'] + (['-race'] if race else []) + ['-overlay', ov, '-run', '^TestVerifReplay$', '-timeout', '%ds' % timeout, '-v', '.'],
           cwd=os.path.join(REPO, DIRMAP[pkg]), env=env)
    out = r.stdout
    failed = ('DATA RACE' in out) or ('VERIF-FAIL' in out) or ('VERIF-PANIC' in out) or ('panic: test timed out' in out) or ('--- FAIL' in out)
    if r.returncode != 0 and not failed and 'VERIF-ASSUME-FAILED' not in out:
        # build failure or similar: not a reproduction
        return None, out
    return failed, out


def retry_random(scratch, job, rec, path, x, known, known_hits, violations, tries=1000):
    """the solver says the two sides can differ (definite sat), but its own witness happens not to separate them natively
    (typical when library calls are summarised: the formula does not depend on the data, so the model's bits are
    arbitrary). One more native run tries `tries` pseudo-random inputs of the same shape; a failing one is a reproduced
    counterexample (the record then carries the search parameters, the replay is deterministic)."""
    r2 = json.loads(json.dumps(rec))
    r2['search'] = tries
    p2 = path.replace('.json', '-search.json')
    json.dump(r2, open(p2, 'w'), indent=1)
    failed, out = native_replay(scratch, job['pkg'], p2, timeout=300, scripted=rec.get('scripted', False), race=rec.get('race', False))
    if failed and 'VERIF-SEARCH-HIT' in out:
        desc = '%s %s %s %s' % (job['harness'], x['kind'], x['label'], x['pos'])
        k = next((k for k in known if k['match'] and k['match'] in desc), None)
        if k is not None:
            known_hits.append((k, desc, p2))
        else:
            violations.append((desc + ' [witness found among %d pseudo-random inputs after the solver model did not separate the two sides]' % tries, p2, out[-1500:]))
        try:
            os.remove(path)
        except OSError:
            pass
        return True
    os.remove(p2)
    return False


def load_known():
    p = os.path.join(VERIF, 'known_findings.txt')
    known = []
    if os.path.exists(p):
        for line in open(p):
            line = line.strip()
            if line.startswith('finding:'):
                # finding: property=C04 match=<substring of harness/label/pos> :: description
                body = line[len('finding:'):].strip()
                head, _, desc = body.partition('::')
                kv = dict(x.split('=', 1) for x in head.split() if '=' in x)
                known.append({'property': kv.get('property'), 'match': kv.get('match', ''), 'desc': desc.strip()})
    return known


def main():
    import argparse
    ap = argparse.ArgumentParser()
    ap.add_argument('prop')
    ap.add_argument('--tier', default=os.environ.get('VERIF_TIER', 'quick'))
    ap.add_argument('--replay')
    ap.add_argument('--only', default='')
    ap.add_argument('--nproc', type=int, default=int(os.environ.get('VERIF_NPROC', '16')))
    ap.add_argument('--keep', action='store_true')
    ap.add_argument('--max-violations', type=int, default=2)
    ap.add_argument('--verbose', '-v', action='store_true')
    ap.add_argument('--no-evidence', action='store_true')
    args = ap.parse_args()
    seed = int(os.environ.get('VERIF_SEED', '0') or 0)
    tier = args.tier if args.tier in ('quick', 'thorough') else 'quick'
    t0 = time.time()
    scratch = tempfile.mkdtemp(prefix='verif-', dir='/var/tmp')
    if not args.keep:
        atexit.register(lambda: shutil.rmtree(scratch, ignore_errors=True))
    import props
    P = props.PROPS[args.prop]

    if args.replay:
        rec = json.load(open(args.replay))
        pkg = rec.get('pkg') or P.get('pkg_of', {}).get(rec['harness'], 'root')
        failed, out = native_replay(scratch, pkg, os.path.abspath(args.replay), scripted=bool(rec.get('scripted')), race=bool(rec.get('race')))
        print(out[-3000:])
        if failed:
            print('VIOLATION property=%s replay=%s' % (args.prop, args.replay))
            sys.exit(1)
        sys.exit(0)

    ssa = dump_ssa(scratch)
    import runner
    jobs = P['jobs'](tier)
    if args.only:
        jobs = [j for j in jobs if args.only in j['harness'] or args.only in json.dumps(j['params'])]
    import random
    random.Random(seed).shuffle(jobs)
    for j in jobs:
        j.setdefault('opts', {})
    tmo = int(os.environ.get('VERIF_QUERY_TIMEOUT_MS', '20000' if tier == 'quick' else '120000'))
    for j in jobs:
        j['opts'].setdefault('timeout_ms', tmo)
        j['opts'].setdefault('job_timeout_s', 600 if tier == 'quick' else 3000)
    gen = runner.run_jobs(ssa, jobs, args.nproc)

    known = [k for k in load_known() if k['property'] == args.prop]
    replay_dir = os.path.join(VERIF, 'replays', args.prop)
    counts = {}
    violations = []
    known_hits = []
    inconclusive = []
    errors = []
    samples = []
    funcs = set()
    notes = set()
    nontrivial = 0
    nobl = 0
    solver_s = 0.0
    queries = 0
    reach_ok = 0
    replays_done = 0
    njobs_done = 0
    stopped_early = False
    for r in gen:
        njobs_done += 1
        if len(violations) >= args.max_violations:
            stopped_early = True
            gen.close()
            break
        job = r['job']
        jid = '%s%s' % (job['harness'], tuple(job['params']))
        if r.get('error'):
            errors.append((jid, r['error']))
            if args.verbose:
                print('ERROR', jid, r['error'])
                print(r.get('trace', ''))
            continue
        funcs.update(r['funcs'])
        notes.update(r['notes'])
        solver_s += r['dstats']['solver_s']
        queries += r['dstats']['queries'] + r['dstats']['pair_queries'] + r['stats']['feas_queries']
        if r['ninputs'] > 0:
            nontrivial += sum(1 for x in r['results'] if x['kind'] != 'reach')
        if args.verbose:
            cnt = {}
            for x in r['results']:
                kk = (x['label'][:18] if x['kind'] in ('close', 'assert', 'reach', 'concrete') else x['kind']) + ':' + x['verdict']
                cnt[kk] = cnt.get(kk, 0) + 1
            print('%-50s exec %.2fs wall %.2fs  %s' % (jid, r['exec_s'], r['wall'], ' '.join('%s%s' % (k, '' if c == 1 else 'x%d' % c) for k, c in cnt.items())))
        for x in r['results']:
            nobl += 1
            v = x['verdict']
            counts[v] = counts.get(v, 0) + 1
            if len(samples) < 6 and x['kind'] != 'reach':
                samples.append({'harness': job['harness'], 'params': job['params'], 'obligation': x['kind'] + ':' + x['label'], 'verdict': v, 'solver_s': x['t']})
            if x['kind'] == 'reach':
                if v == 'reach-ok':
                    reach_ok += 1
                else:
                    errors.append((jid, 'vacuity witness %s not reachable (%s)' % (x['label'], v)))
                continue
            if v in ('unsat',):
                continue
            if v == 'concrete-fail':
                os.makedirs(replay_dir, exist_ok=True)
                path = os.path.join(replay_dir, '%s.json' % job['harness'].replace(':', '_'))
                json.dump(dict(x['record'], pkg=job['pkg'], label=x['label']), open(path, 'w'), indent=1)
                desc = '%s %s %s' % (job['harness'], x['label'], x['detail'])
                k = next((k for k in known if k['match'] and k['match'] in desc), None)
                if k is not None:
                    known_hits.append((k, desc, path))
                else:
                    violations.append((desc, path, x['detail']))
                continue
            if v in ('sat', 'sat-abstract', 'sat-candidate'):
                os.makedirs(replay_dir, exist_ok=True)
                rec = x['record']
                rec['pkg'] = job['pkg']
                rec['race'] = bool(job['opts'].get('race'))
                rec['scripted'] = any(x_ in ('workflow', 'fast') for x_ in job['opts'].get('stubs', []))
                rec['obligation'] = {'kind': x['kind'], 'label': x['label'], 'pos': x['pos']}
                name = hashlib.sha1(json.dumps(rec, sort_keys=True).encode()).hexdigest()[:12]
                path = os.path.join(replay_dir, '%s-%s.json' % (job['harness'], name))
                json.dump(rec, open(path, 'w'), indent=1)
                replays_done += 1
                if len(violations) >= args.max_violations:
                    os.remove(path)
                    continue
                failed, out = native_replay(scratch, job['pkg'], path, scripted=rec['scripted'], race=rec['race'])
                if failed:
                    desc = '%s %s %s %s' % (job['harness'], x['kind'], x['label'], x['pos'])
                    k = next((k for k in known if k['match'] and k['match'] in desc), None)
                    if k is not None:
                        known_hits.append((k, desc, path))
                    else:
                        violations.append((desc, path, out[-1500:]))
                elif v == 'sat-candidate':
                    os.remove(path)
                elif v == 'sat' and failed is False and any(i.get('kind') in ('bits', 'bytes') for i in rec['inputs']) and retry_random(scratch, job, rec, path, x, known, known_hits, violations):
                    pass
                else:
                    if not args.keep:
                        os.remove(path)
                    why = 'solver model did not reproduce natively (%s): encoding mismatch or tolerance' % v
                    if out and 'VERIF-MARGINAL' in out:
                        why = 'native difference between the tolerance and 1e-6 only (%s): within the rounding noise of the binary64 reference model near a singular tail, not counted' % v
                    inconclusive.append((jid, x['label'], why))
            else:
                inconclusive.append((jid, x['label'], v))

    wall = time.time() - t0
    ok = not violations   # engine errors / unsupported constructs are reported as inconclusive, never as an alarm
    # ---------------- report
    for k, desc, path in known_hits:
        print('KNOWN-FINDING: property=%s %s [%s] replay=%s' % (args.prop, k['desc'], desc, path))
    for jid, label, why in inconclusive:
        print('INCONCLUSIVE: %s %s: %s' % (jid, label, why))
    for jid, e in errors:
        print('CHECK-ERROR: %s: %s' % (jid, e))
    for desc, path, out in violations:
        print('--- native replay output ---')
        print(out)
        print('VIOLATION property=%s replay=%s' % (args.prop, path))
    if stopped_early:
        print('stopped after %d reproduced violations (%d of %d jobs examined)' % (len(violations), njobs_done, len(jobs)))
    print('%s tier=%s jobs=%d obligations=%d verdicts=%s inconclusive=%d errors=%d wall=%.1fs solver=%.1fs' % (
        args.prop, tier, len(jobs), nobl, counts, len(inconclusive), len(errors), wall, solver_s))
    if not args.no_evidence and not args.only:
        ev = {
            'property_id': args.prop, 'tier': tier, 'seed': seed, 'level': 'model_checking',
            'coverage': {
                'evaluations': max(1, queries),
                'distinct_nontrivial': max(nontrivial, 0),
                'rule': 'one obligation per (harness, parameters, assertion); each is an SMT query over ALL values of the symbolic inputs inside the stated bound; non-trivial = the formula has free input variables (counted per obligation); evaluations = solver queries incl. feasibility and guard-pairing queries',
                'samples': samples,
                'obligations': nobl, 'discharged': counts.get('unsat', 0) + reach_ok,
                'verdicts': counts, 'vacuity_witnesses_reachable': reach_ok,
                'inconclusive': [list(x) for x in inconclusive][:50],
                'errors': [list(x) for x in errors][:20],
                'jobs': len(jobs), 'solver_s': round(solver_s, 2),
                'bounds': P.get('bounds', {}).get(tier, ''), 'outside': P.get('outside', ''),
                'functions_encoded': sorted(f for f in funcs if 'Trisia' in f or f.startswith('io.'))[:200],
                'native_replays': replays_done,
                'known_findings_reported': [k['desc'] for k, _, _ in known_hits],
                'exhaustive': False,
            },
            'assumptions': P.get('assumptions', []) + sorted(notes),
            'wall_s': round(wall, 2), 'violations': len(violations),
        }
        os.makedirs(os.path.join(VERIF, 'evidence'), exist_ok=True)
        json.dump(ev, open(os.path.join(VERIF, 'evidence', args.prop + '.json'), 'w'), indent=1, ensure_ascii=False)
    sys.exit(0 if ok else 1)


if __name__ == '__main__':
    main()
