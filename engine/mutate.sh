#!/bin/sh
# usage: mutate.sh <PROP> <file> <sed-expr> [check args]  -- apply a mutation to /repo, run the check, revert
prop=$1; file=$2; expr=$3; shift 3
cd /repo && sed -i "$expr" "$file" && git diff --stat | tail -1
if [ -z "$(git diff --stat)" ]; then echo "MUTATION DID NOT APPLY"; exit 2; fi
(cd /repo && GOFLAGS=-mod=mod GOPROXY=off go build ./... ) || { git -C /repo checkout -- .; echo "MUTANT DOES NOT BUILD"; exit 2; }
cd /verif && ./check $prop --no-evidence "$@" 2>&1 | grep -E "VIOLATION|INCONCLUSIVE|CHECK-ERROR|tier=" | head -40
git -C /repo checkout -- .
