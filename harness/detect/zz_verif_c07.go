package detect

import (
	"io"

	"github.com/Trisia/randomness"
)

// ---- C07: factory / power-on / periodic verdict = GM/T decision rule, at the real sizes

// does item j violate the pass-count criterion (fewer than t passing samples) ?
func specPassViolated(s, j, t int) bool {
	cnt := 0
	for k := 0; k < s; k++ {
		if vPass(k, j) {
			cnt++
		}
	}
	return cnt < t
}

// does item j violate the uniformity criterion (P of the ten-bin chi-square of its s Q-values below 0.0001) ?
func specUniformityViolated(s, j int) bool {
	qs := make([]float64, s)
	for k := 0; k < s; k++ {
		qs[k] = vQ(k, j)
	}
	return specThresholdQ(qs) < 0.0001
}

func wfRun(which int, src io.Reader) (bool, error) {
	switch which {
	case 0:
		return FactoryDetect(src)
	case 1:
		return PowerOnDetect(src)
	default:
		return PeriodDetect(src)
	}
}

// which: 0 factory (s=50, 15 items, 125000-byte samples, t=48), 1 power-on (20, 15, 125000, 19), 2 periodic (20, 12, 2500, 19)
func H_C07_workflow(which int) {
	s, items, nbytes, t, round := 50, 15, 125000, 48, "Round15"
	if which == 1 {
		s, t = 20, 19
	}
	if which == 2 {
		s, items, nbytes, t, round = 20, 12, 2500, 19, "Round12"
	}
	vScriptRounds(s, items)
	src := &vStream{failAt: -1}
	ok, err := wfRun(which, src)

	// decision rule
	viol := make([]bool, items)
	good := true
	for j := 0; j < items; j++ {
		viol[j] = specPassViolated(s, j, t) || specUniformityViolated(s, j)
		if viol[j] {
			good = false
		}
	}
	vAssert(ok == good, "verdict == for every item: passes >= threshold and uniformity P >= 0.0001")
	vAssert(!ok || err == nil, "true verdict carries nil error")
	vAssert(ok || err != nil, "false verdict carries non-nil error")
	// the error names an item that violates one of the two criteria
	it := vErrItem(err)
	named := false
	for j := 0; j < items; j++ {
		if it == j && viol[j] {
			named = true
		}
	}
	vAssert(ok || named, "error names a judged item that violates a criterion")
	// samples: exactly s consecutive blocks of nbytes bytes, each handed to the right round function; nothing more is read
	vAssert(vRoundCalls() == s, "one round per sample")
	for k := 0; k < s; k++ {
		vAssert(vRoundName(k) == round, "round function")
		vAssert(vRoundBufLen(k) == nbytes, "sample size")
		vAssert(vRoundBufPos(k) == k*nbytes, "sample k is bytes [k*size, (k+1)*size) of the stream")
	}
	vAssert(src.pos == s*nbytes, "bytes beyond the s samples are never read")
	// a second, independent run on the same per-sample results gives the same answer (no state carried between calls)
	vScriptReset()
	src2 := &vStream{failAt: -1}
	okB, errB := wfRun(which, src2)
	vAssert(okB == ok && vErrItem(errB) == it, "a later call is judged like the first one (no state carried over)")
	vAssert(randomness.AlphaT == 0.0001 && randomness.Alpha == 0.01, "significance levels")
	vReach("end")
}
