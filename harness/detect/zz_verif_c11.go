package detect

// ---- C11: single-shot detection

// n: requested length (symbolic over 0 .. 2^31-1); the four stream kinds make the choice of m observable natively
func H_C11_single() {
	n := vInt(0, 1<<31-1)
	// an earlier call with any other length must not influence the following ones
	n0 := vInt(0, 1<<31-1)
	SingleDetect(&vStream{failAt: -1, kind: 1}, n0)
	for kind := 1; kind <= 4; kind++ {
		src := &vStream{failAt: -1, kind: kind}
		ok, err := SingleDetect(src, n)
		vAssert(src.pos == n && src.reads <= 1, "reads exactly the requested number of bytes")
		if n < 16 {
			vAssert(!ok && err != nil, "fewer than 16 bytes: verdict false with an error")
		} else {
			m := 4
			if 8*n < 320 {
				m = 2
			}
			if 8*n >= 10240 {
				m = 8
			}
			p := vPokerExpect(kind, n, m)
			vAssert(err == nil, "no error for an admissible length")
			vAssert(ok == (p >= 0.01), "verdict == (poker P with the length-appropriate m >= 0.01)")
		}
	}
	vReach("end")
}
