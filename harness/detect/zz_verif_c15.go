package detect

import "github.com/Trisia/randomness"

// ---- C15: the full round runs the fifteen registry tests in the standard's order, the reduced round the first twelve

func H_C15_rounds(nb int) {
	d := vBytes(nb)
	want := []*randomness.TestResult{
		randomness.MonoBitFrequency(d), randomness.FrequencyWithinBlock(d), randomness.Poker(d),
		randomness.OverlappingTemplateMatching(d), randomness.Runs(d), randomness.RunsDistribution(d),
		randomness.LongestRunOfOnesInABlock(d), randomness.BinaryDerivative(d), randomness.Autocorrelation(d),
		randomness.MatrixRank(d), randomness.Cumulative(d), randomness.ApproximateEntropy(d),
		randomness.LinearComplexity(d), randomness.MaurerUniversal(d), randomness.DiscreteFourierTransform(d),
	}
	r15 := Round15(d)
	r12 := Round12(d)
	vAssert(len(r15) == 15, "full round: fifteen results")
	vAssert(len(r12) == 12, "reduced round: twelve results")
	vAssert(len(randomness.TestMethodArr) == 15, "registry lists fifteen tests")
	for i := 0; i < 15 && i < len(r15); i++ {
		vClose(r15[i].P, want[i].P, 0, "Round15 result i is test i of the standard's numbering (P)")
		vClose(r15[i].Q, want[i].Q, 0, "Round15 result i (Q)")
		vClose(r15[i].P2, want[i].P2, 0, "Round15 result i (P2)")
		vAssert(r15[i].Pass == want[i].Pass, "Round15 result i (Pass)")
		ri := randomness.TestMethodArr[i].Runner(d)
		vClose(ri.P, want[i].P, 0, "registry entry i is test i of the standard's numbering")
	}
	for i := 0; i < 12 && i < len(r12); i++ {
		vClose(r12[i].P, want[i].P, 0, "Round12 result i is test i (P)")
		vClose(r12[i].Q, want[i].Q, 0, "Round12 result i (Q)")
		vAssert(r12[i].Pass == want[i].Pass, "Round12 result i (Pass)")
	}
	vReach("end")
}
