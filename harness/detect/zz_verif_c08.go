package detect

// ---- C08 / C09 / C10: parallel (Fast) workflows, failing sources, short reads

func wfParams(which int) (s, items, nbytes, t int, round string) {
	s, items, nbytes, t, round = 50, 15, 125000, 48, "Round15"
	if which == 1 {
		s, t = 20, 19
	}
	if which == 2 {
		s, items, nbytes, t, round = 20, 12, 2500, 19, "Round12"
	}
	return
}

// the parallel variant returns what its sequential counterpart returns on the same scripted per-sample results,
// judges the same items with the same round function on the same sample blocks
func H_C08_fast(which int) {
	s, items, nbytes, _, round := wfParams(which)
	vScriptRounds(s, items)
	src1 := &vStream{failAt: -1}
	ok1, err1 := wfRun(which, src1)
	vScriptReset()
	src2 := &vStream{failAt: -1}
	ok2, err2 := vGuard(which, src2)
	vAssert(ok1 == ok2, "parallel verdict == sequential verdict")
	vAssert((err1 == nil) == (err2 == nil), "error present iff sequential error present")
	vAssert(vErrItem(err1) == vErrItem(err2), "error names the same failing test item")
	vAssert(vRoundCalls() == s, "one round per sample")
	for k := 0; k < s; k++ {
		vAssert(vRoundName(k) == round, "round function of the sequential counterpart (periodic: the first twelve items)")
		vAssert(vRoundBufLen(k) == nbytes, "sample size")
		vAssert(vRoundBufFresh(k) == nbytes, "sample consists of freshly read consecutive bytes")
	}
	vAssert(vRoundPosOK(s, nbytes), "the samples are the s consecutive blocks of the stream")
	vAssert(src2.pos == s*nbytes, "nothing beyond the s samples is read")
	vReach("end")
}

// one worker iteration with a symbolic job index i touches only column i of the distributions (and the atomic
// counters): cells of every other column j keep their value. Together with "writes precede Done" (program order in
// worker) this is the disjointness premise of the schedule-independence argument.
func H_C08_worker_step(s, items int) {
	vScriptRounds(s, items)
	i := vInt(0, s-1)
	j := vInt(0, s-1)
	vAssume(i != j)
	counters := make([]int32, items)
	dist := createDistributions(s, items)
	marks := make([]float64, items)
	for idx := 0; idx < items; idx++ {
		marks[idx] = vFloat01()
		dist[idx][j] = marks[idx]
	}
	vWorkerIteration(i, counters, dist, items)
	for idx := 0; idx < items; idx++ {
		vAssert(dist[idx][j] == marks[idx], "column j != i untouched")
		vAssert(dist[idx][i] == vQ(0, idx), "column i holds the Q-values of the sample just judged")
		vAssert((counters[idx] == 1) == vPass(0, idx) && (counters[idx] == 0) == !vPass(0, idx), "counter incremented iff the item passed")
	}
	vReach("end")
}

// ---- C09: failing source

// sequential workflows: the source fails at byte offset `fail` (anywhere in 0 .. s*size-1), possibly after a partial read
func H_C09_seq(which int) {
	s, items, nbytes, _, _ := wfParams(which)
	vScriptRounds(s, items)
	fail := vInt(0, s*nbytes-1)
	kind := vInt(0, 2)
	src := &vStream{failAt: fail, failErr: vFailErr(kind), failOnce: vBool()}
	ok, err := wfRun(which, src)
	vAssert(!ok, "failing source: verdict false")
	vAssert(err != nil, "failing source: non-nil error")
	vAssert(vRoundCalls() <= s-1, "no sample is judged after the failure")
	vAssert(src.reads <= s, "returns promptly: no read after the failure")
	vReach("end")
}

func H_C09_single() {
	n := vInt(16, 1<<20)
	fail := vInt(0, 1<<20)
	vAssume(fail < n)
	kind := vInt(0, 2)
	src := &vStream{failAt: fail, failErr: vFailErr(kind), kind: 1}
	ok, err := SingleDetect(src, n)
	vAssert(!ok && err != nil, "failing source: (false, error)")
	vReach("end")
}

// parallel workflows: no hang, (false, error), workers released
func H_C09_fast(which int) {
	s, items, nbytes, _, _ := wfParams(which)
	vScriptRounds(s, items)
	fail := vInt(0, s*nbytes-1)
	kind := vInt(0, 2)
	src := &vStream{failAt: fail, failErr: vFailErr(kind), failOnce: vBool()}
	before := vGoroutines()
	ok, err := vGuard(which, src)
	vAssert(!ok, "failing source: verdict false")
	vAssert(err != nil, "failing source: non-nil error")
	vAssert(!vGoroutineLeak(before), "no worker goroutine stays blocked behind")
	vReach("end")
}

// ---- C10: short reads. Every Read delivers at most `chunk` bytes (1 .. size); each judged sample must still be a block
// of freshly read consecutive stream bytes, and the verdict must be the one of the full-read run
func H_C10_chunked(which, fast int) {
	s, items, nbytes, _, round := wfParams(which)
	vScriptRounds(s, items)
	chunk := vInt(1, nbytes)
	src := &vStream{failAt: -1, maxChunk: chunk}
	var ok bool
	var err error
	if fast == 1 {
		ok, err = vGuard(which, src)
	} else {
		ok, err = wfRun(which, src)
	}
	vAssert(vRoundCalls() == s, "one round per sample")
	for k := 0; k < s; k++ {
		vAssert(vRoundName(k) == round, "round function")
		vAssert(vRoundBufLen(k) == nbytes, "sample size")
		vAssert(vRoundBufFresh(k) == nbytes, "sample consists solely of freshly read consecutive stream bytes")
	}
	vAssert(vRoundPosOK(s, nbytes), "the samples are the s consecutive blocks of the stream")
	vAssert(vReadsUnlocked() == 0 || fast == 0, "parallel workers read whole samples under the run's lock")
	// same verdict as with full reads
	vScriptReset()
	src2 := &vStream{failAt: -1}
	ok2, err2 := wfRun(which, src2)
	vAssert(ok == ok2 && vErrItem(err) == vErrItem(err2), "verdict and failing item independent of the read sizes")
	vReach("end")
}
