// Code generated from /verif/harness/api.go.tmpl; DO NOT EDIT.
// Harness API. Symbolically, calls to these functions are intercepted by engine/gosym; natively they
// replay a record written by the checker (VERIF_REPLAY=<file>).

package detect

import (
	"encoding/json"
	"fmt"
	"math"
	"os"
)

type vInput struct {
	Kind string  `json:"kind"`
	Bits string  `json:"bits,omitempty"`
	I    int     `json:"i,omitempty"`
	F    float64 `json:"f,omitempty"`
	B    bool    `json:"b,omitempty"`
}

type vRecord struct {
	Harness string   `json:"harness"`
	Params  []int    `json:"params"`
	Inputs  []vInput `json:"inputs"`
	// Search > 0: the bit/byte inputs of the record are replaced by Search different pseudo-random inputs, one run each
	// (used when the solver has shown that a difference exists but its own witness does not separate the two sides)
	Search int `json:"search,omitempty"`
}

var vRec vRecord
var vPos int
var vSearchSeed uint64 // > 0: bit/byte inputs come from this pseudo-random stream instead of the record

func vRandBit() bool {
	// xorshift64*
	vSearchSeed ^= vSearchSeed >> 12
	vSearchSeed ^= vSearchSeed << 25
	vSearchSeed ^= vSearchSeed >> 27
	return (vSearchSeed*2685821657736338717)>>63 == 1
}

var vFailures []string
var vMarginal []string
var vReached []string

func vLoad(path string) {
	data, err := os.ReadFile(path)
	if err != nil {
		panic(err)
	}
	vRec = vRecord{}
	if err := json.Unmarshal(data, &vRec); err != nil {
		panic(err)
	}
	vPos = 0
	vFailures = nil
	vMarginal = nil
	vReached = nil
}

func vNext(kind string) vInput {
	if vPos >= len(vRec.Inputs) {
		panic("verif replay: record exhausted")
	}
	in := vRec.Inputs[vPos]
	vPos++
	if in.Kind != kind {
		panic("verif replay: expected " + kind + " got " + in.Kind)
	}
	return in
}

type vAssumeFailed struct{}

func vBits(n int) []bool {
	in := vNext("bits")
	r := make([]bool, n)
	if vSearchSeed > 0 {
		for i := range r {
			r[i] = vRandBit()
		}
		return r
	}
	for i := 0; i < n && i < len(in.Bits); i++ {
		r[i] = in.Bits[i] == '1'
	}
	return r
}

// vBytes: n bytes, record holds 8n bits most significant first
func vBytes(n int) []byte {
	in := vNext("bytes")
	r := make([]byte, n)
	if vSearchSeed > 0 {
		for i := range r {
			for j := 0; j < 8; j++ {
				r[i] <<= 1
				if vRandBit() {
					r[i] |= 1
				}
			}
		}
		return r
	}
	for i := 0; i < n; i++ {
		for j := 0; j < 8; j++ {
			r[i] <<= 1
			if 8*i+j < len(in.Bits) && in.Bits[8*i+j] == '1' {
				r[i] |= 1
			}
		}
	}
	return r
}

func vBool() bool { return vNext("bool").B }

func vInt(lo, hi int) int { return vNext("int").I }

func vFloat01() float64 { return vNext("float").F }

func vReal() float64 { return vNext("float").F }

func vAssume(c bool) {
	if !c {
		panic(vAssumeFailed{})
	}
}

func vAssert(c bool, label string) {
	if !c {
		vFailures = append(vFailures, label)
	}
}

func vClose(a, b, tol float64, label string) {
	if math.IsNaN(a) && math.IsNaN(b) {
		return
	}
	d := math.Abs(a - b)
	if d <= tol {
		return
	}
	if tol > 0 && d <= 1e-6 {
		// The reference model is itself evaluated in binary64. Where the tail function is singular (igamc(1/2, x) near
		// x = 0 behaves like 1 - 2 sqrt(x/pi)) rounding noise of 1e-15 in the statistic becomes 3e-8 in P: a native
		// difference between tol and 1e-6 is therefore not evidence of a wrong implementation. It is reported, not failed.
		vMarginal = append(vMarginal, fmt.Sprintf("%s: %v vs %v", label, a, b))
		return
	}
	vFailures = append(vFailures, fmt.Sprintf("%s: %v vs %v", label, a, b))
}

func vReach(label string) { vReached = append(vReached, label) }

func vLog(args ...interface{}) {}
