package detect

import (
	"os"
	"testing"
)

var vHarnesses = map[string]func(p []int){
	"H_C15_rounds": func(p []int) { H_C15_rounds(p[0]) },
	"H_C09_seq":     func(p []int) { H_C09_seq(p[0]) },
	"H_C09_single":  func(p []int) { H_C09_single() },
	"H_C09_fast":    func(p []int) { H_C09_fast(p[0]) },
	"H_C10_chunked": func(p []int) { H_C10_chunked(p[0], p[1]) },
	"H_C08_fast":        func(p []int) { H_C08_fast(p[0]) },
	"H_C08_worker_step": func(p []int) { H_C08_worker_step(p[0], p[1]) },
	"H_C11_single": func(p []int) { H_C11_single() },
	"H_C07_workflow": func(p []int) { H_C07_workflow(p[0]) },
	"H_C12_threshold":        func(p []int) { H_C12_threshold(p[0], p[1]) },
	"H_C12_threshold_values": func(p []int) { H_C12_threshold_values() },
	"H_C12_thresholdQ":       func(p []int) { H_C12_thresholdQ(p[0]) },
	"H_C12_thresholdQ_swap":  func(p []int) { H_C12_thresholdQ_swap(p[0], p[1]) },
}

func TestVerifReplay(t *testing.T) {
	path := os.Getenv("VERIF_REPLAY")
	if path == "" {
		t.Skip("no VERIF_REPLAY")
	}
	vLoad(path)
	vScript = nil
	h, ok := vHarnesses[vRec.Harness]
	if !ok {
		t.Fatalf("unknown harness %s", vRec.Harness)
	}
	run := func() {
		defer func() {
			if r := recover(); r != nil {
				if _, ok := r.(vAssumeFailed); ok {
					t.Logf("VERIF-ASSUME-FAILED")
					return
				}
				t.Errorf("VERIF-PANIC: %v", r)
			}
		}()
		h(vRec.Params)
	}
	if vRec.Search > 0 {
		for it := 1; it <= vRec.Search && len(vFailures) == 0 && !t.Failed(); it++ {
			vSearchSeed = uint64(it)*0x9E3779B97F4A7C15 + 1
			vPos = 0
			vMarginal = nil
			run()
			if len(vFailures) > 0 {
				t.Logf("VERIF-SEARCH-HIT: pseudo-random input number %d", it)
			}
		}
	} else {
		run()
	}
	for _, f := range vFailures {
		t.Errorf("VERIF-FAIL: %s", f)
	}
	for _, m := range vMarginal {
		t.Logf("VERIF-MARGINAL: %s", m)
	}
	for _, r := range vReached {
		t.Logf("VERIF-REACHED: %s", r)
	}
}
