package detect

import (
	"errors"
	"io"
	"runtime"
	"sort"
	"strings"
	"sync"
	"time"

	"github.com/Trisia/randomness"
)

// ---- workflow harness support: scripted per-sample results and instrumented sources.
// Symbolically these functions are intercepted (engine/gosym/stubs.py, stub set "workflow");
// natively they replay a record, and detect/round.go is replaced (go test -overlay) by
// harness/detect_overlay/round.go which serves the scripted results.

type vScriptT struct {
	mu       sync.Mutex
	s, items int
	pass     [][]bool
	q        [][]float64
	calls    int      // number of round calls so far
	round    []string // which round function was called
	bufLen   []int    // length of the buffer each call received
	bufPos   []int    // stream position of the first byte of the buffer each call received
	bufFresh []int    // number of leading bytes of that buffer that are consecutive stream bytes from bufPos on
}

var vScript *vScriptT

// vScriptRounds declares an s x items matrix of per-sample results (Pass flag and Q-value of every item).
func vScriptRounds(s, items int) {
	sc := &vScriptT{s: s, items: items}
	for k := 0; k < s; k++ {
		row := make([]bool, items)
		for j := range row {
			row[j] = vBool()
		}
		sc.pass = append(sc.pass, row)
	}
	for k := 0; k < s; k++ {
		row := make([]float64, items)
		for j := range row {
			row[j] = vFloat01()
		}
		sc.q = append(sc.q, row)
	}
	vScript = sc
}

func vPass(k, j int) bool { return vScript.pass[k][j] }
func vQ(k, j int) float64 { return vScript.q[k][j] }

// vRoundCalls: number of round-function calls made; vRoundName/vRoundBuf*: what the k-th call looked like
func vRoundCalls() int        { return vScript.calls }
func vRoundName(k int) string { return vScript.round[k] }
func vRoundBufLen(k int) int  { return vScript.bufLen[k] }
func vRoundBufPos(k int) int  { return vScript.bufPos[k] }

// scripted round: result k of item j has the declared Pass and Q (called from the overlay round.go)
func vScriptedRound(name string, data []byte, n int) []*randomness.TestResult {
	sc := vScript
	sc.mu.Lock()
	defer sc.mu.Unlock()
	k := sc.calls
	sc.calls++
	sc.round = append(sc.round, name)
	sc.bufLen = append(sc.bufLen, len(data))
	pos := -1
	if len(data) >= 4 {
		// the stream carries its own offsets: bytes [4m, 4m+4) hold the big-endian value 4m
		pos = 0
		for i := 0; i < 4; i++ {
			pos = pos<<8 | int(data[i])
		}
	}
	sc.bufPos = append(sc.bufPos, pos)
	fresh := 0
	if pos >= 0 && pos%4 == 0 {
		for fresh < len(data) && data[fresh] == vStreamByte(0, pos+fresh) {
			fresh++
		}
	}
	sc.bufFresh = append(sc.bufFresh, fresh)
	res := make([]*randomness.TestResult, n)
	for j := 0; j < n; j++ {
		r := &randomness.TestResult{}
		if k < sc.s && j < sc.items {
			r.Pass = sc.pass[k][j]
			r.Q = sc.q[k][j]
		}
		res[j] = r
	}
	return res
}

// vStream: an endless byte source; byte i of the stream is a function of i only (4-byte big-endian offset stamps),
// so a buffer identifies the stream position it was filled from. reads counts Read calls, pos bytes delivered.
type vStream struct {
	pos   int
	reads int
	// failure injection: fail when pos+len would exceed failAt (-1: never); failErr nil means io.EOF
	failAt  int
	failErr error
	// maxChunk > 0: deliver at most maxChunk bytes per Read
	maxChunk int
	// content: 0 offset stamps, 1 all 256 byte values in turn, 2 sixteen bytes covering every nibble equally,
	// 3 constant 0x1B (00 01 10 11), 4 zeros
	kind int
	mu   sync.Mutex // Read is safe for concurrent use
	// failOnce: the failure is transient - after the failing Read the source works again
	failOnce bool
}

func vStreamByte(kind, i int) byte {
	switch kind {
	case 1:
		return byte(i)
	case 2:
		return []byte{0x01, 0x23, 0x45, 0x67, 0x89, 0xab, 0xcd, 0xef, 0x10, 0x32, 0x54, 0x76, 0x98, 0xba, 0xdc, 0xfe}[i%16]
	case 3:
		return 0x1b
	case 4:
		return 0
	}
	// offset stamp: bytes [4m, 4m+4) hold the big-endian value 4m
	base := i - i%4
	return byte(base >> uint(8*(3-i%4)))
}

func (s *vStream) Read(p []byte) (int, error) {
	s.mu.Lock()
	defer s.mu.Unlock()
	s.reads++
	n := len(p)
	if s.maxChunk > 0 && n > s.maxChunk {
		n = s.maxChunk
	}
	if s.maxChunk > 0 {
		runtime.Gosched() // short reads: give other readers the chance to interleave
	}
	if s.failAt >= 0 && s.pos+n > s.failAt {
		n = s.failAt - s.pos
		if n < 0 {
			n = 0
		}
		for i := 0; i < n; i++ {
			p[i] = vStreamByte(s.kind, s.pos+i)
		}
		s.pos += n
		if s.failOnce {
			s.failAt = -1
		}
		if s.failErr != nil {
			return n, s.failErr
		}
		return n, io.EOF
	}
	for i := 0; i < n; i++ {
		p[i] = vStreamByte(s.kind, s.pos+i)
	}
	s.pos += n
	return n, nil
}

var vErrCustom = errors.New("verif: custom source failure")

// index of the registry item whose name starts the error text; -1 if none / nil error
func vErrItem(err error) int {
	if err == nil {
		return -1
	}
	msg := err.Error()
	best, bestLen := -1, -1
	for i, it := range randomness.TestMethodArr {
		if strings.HasPrefix(msg, it.Name+" ") && len(it.Name) > bestLen {
			best, bestLen = i, len(it.Name)
		}
	}
	return best
}

// P-value of the poker test with pattern length m on bytes [0, n) of the stream of the given kind
func vPokerExpect(kind, n, m int) float64 {
	data := make([]byte, n)
	for i := range data {
		data[i] = vStreamByte(kind, i)
	}
	p, _ := randomness.PokerTestBytes(data, m)
	return p
}

func vRoundBufFresh(k int) int { return vScript.bufFresh[k] }

// forget the calls made so far (the declared results stay): the next round call is call 0 again
func vScriptReset() {
	sc := vScript
	sc.calls, sc.round, sc.bufLen, sc.bufPos, sc.bufFresh = 0, nil, nil, nil, nil
}

// the s buffers seen by the round function are, in some order, the stream blocks [k*nbytes, (k+1)*nbytes)
func vRoundPosOK(s, nbytes int) bool {
	sc := vScript
	if len(sc.bufPos) != s {
		return false
	}
	ps := append([]int(nil), sc.bufPos...)
	sort.Ints(ps)
	for k := 0; k < s; k++ {
		if ps[k] != k*nbytes {
			return false
		}
	}
	return true
}

// failure kinds: 0 io.EOF, 1 a custom error, 2 io.ErrUnexpectedEOF
func vFailErr(kind int) error {
	switch kind {
	case 1:
		return vErrCustom
	case 2:
		return io.ErrUnexpectedEOF
	}
	return nil
}

func fastRun(which int, src io.Reader) (bool, error) {
	switch which {
	case 0:
		return FactoryDetectFast(src)
	case 1:
		return PowerOnDetectFast(src)
	default:
		return PeriodDetectFast(src)
	}
}

var vErrHang = errors.New("verif: workflow did not return within the watchdog time (hang)")

// vGuard runs a parallel workflow under a watchdog: a hang is reported as a failure instead of blocking the replay
func vGuard(which int, src io.Reader) (bool, error) {
	type res struct {
		ok  bool
		err error
	}
	ch := make(chan res, 1)
	go func() {
		ok, err := fastRun(which, src)
		ch <- res{ok, err}
	}()
	select {
	case r := <-ch:
		return r.ok, r.err
	case <-time.After(60 * time.Second):
		vFailures = append(vFailures, "HANG: parallel workflow did not return within 60s")
		return false, vErrHang
	}
}

func vGoroutines() int { return runtime.NumGoroutine() }

// are there more goroutines than before, after giving finished ones time to exit ?
func vGoroutineLeak(before int) bool {
	for i := 0; i < 50; i++ {
		if runtime.NumGoroutine() <= before {
			return false
		}
		time.Sleep(20 * time.Millisecond)
	}
	return true
}

// one iteration of the real worker for job index i (the jobs channel holds just i and is closed)
func vWorkerIteration(i int, counters []int32, dist [][]float64, items int) {
	jobs := make(chan int, 1)
	jobs <- i
	close(jobs)
	var wg sync.WaitGroup
	wg.Add(1)
	var state readState
	round := Round15
	if items == 12 {
		round = Round12
	}
	worker(jobs, &vStream{failAt: -1}, &state, 2500, round, counters, dist, &wg)
}

// number of source reads made outside any lock (symbolic runs only; natively unknown: 0)
func vReadsUnlocked() int { return 0 }
