package detect

import "github.com/Trisia/randomness"

// ---- C12: pass-count threshold and sample-uniformity statistic

// t >= s(0.99 - 3 sqrt(0.0099/s))  <=>  99s - 100t <= 0  or  (99s - 100t)^2 <= 891 s   (exact integer arithmetic)
func specThresholdReached(s, t int) bool {
	d := 99*s - 100*t
	return d <= 0 || d*d <= 891*s
}

// bit-precise (binary64, round-to-nearest-even) execution of Threshold for every s in [lo, hi]
func H_C12_threshold(lo, hi int) {
	s := vInt(lo, hi)
	t := Threshold(s)
	vAssert(specThresholdReached(s, t), "t >= s(1-a-3sqrt(a(1-a)/s))")
	vAssert(!specThresholdReached(s, t-1), "t-1 is below the bound (t is the least such integer)")
	vReach("end")
}

func H_C12_threshold_values() {
	vAssert(Threshold(50) == 48, "48 of 50")
	vAssert(Threshold(20) == 19, "19 of 20")
	vAssert(Threshold(1000) == 981, "981 of 1000")
	vReach("end")
}

// uniformity statistic from the literal definition: ten intervals [0,0.1) ... [0.9,1], V = sum (F_i - s/10)^2/(s/10), P = Q(9/2, V/2)
func specThresholdQ(qs []float64) float64 {
	lo := []float64{0, 0.1, 0.2, 0.3, 0.4, 0.5, 0.6, 0.7, 0.8, 0.9}
	hi := []float64{0.1, 0.2, 0.3, 0.4, 0.5, 0.6, 0.7, 0.8, 0.9, 1.0}
	f := make([]int, 10)
	for _, q := range qs {
		for b := 0; b < 10; b++ {
			if b < 9 {
				if q >= lo[b] && q < hi[b] {
					f[b]++
				}
			} else if q >= lo[b] && q <= hi[b] {
				f[b]++
			}
		}
	}
	e := float64(len(qs)) / 10
	var v float64
	for b := 0; b < 10; b++ {
		v += (float64(f[b]) - e) * (float64(f[b]) - e) / e
	}
	return randomness.Igamc(4.5, v/2)
}

func vQList(n int) []float64 {
	qs := make([]float64, n)
	for i := 0; i < n; i++ {
		qs[i] = vFloat01()
	}
	return qs
}

func H_C12_thresholdQ(n int) {
	qs := vQList(n)
	p := ThresholdQ(qs)
	sp := specThresholdQ(qs)
	vClose(p, sp, 1e-9, "uniformity P")
	vReach("end")
}

// order independence: swapping two adjacent entries (adjacent transpositions generate every permutation)
func H_C12_thresholdQ_swap(n, i int) {
	qs := vQList(n)
	p := ThresholdQ(qs)
	rs := make([]float64, n)
	copy(rs, qs)
	rs[i], rs[i+1] = rs[i+1], rs[i]
	p2 := ThresholdQ(rs)
	vClose(p, p2, 0, "permutation invariance")
	vReach("end")
}
