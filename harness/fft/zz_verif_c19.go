package fft

// ---- C19: FFT package

// lastPow2 over the whole int range: refusals and the largest power of two not exceeding N
func H_C19_lastpow2() {
	N := vInt(-1<<40, 1<<40)
	n, p, err := lastPow2(N)
	if N < 2 || N > 1<<27 {
		vAssert(err != nil, "lengths below 2 or above 2^27 are refused with an error")
	} else {
		vAssert(err == nil, "admissible length accepted")
		vAssert(n <= N && 2*n > N, "largest power of two not exceeding N")
		vAssert(n&(n-1) == 0 && n >= 2, "power of two")
		vAssert(p >= 1 && p <= 27 && 1<<uint(p) == n, "2^p == n")
	}
	vReach("end")
}

// permutation vector = bit reversal of the p-bit index
func H_C19_perm(p int) {
	idx := permutationIndex(p)
	N := 1 << uint(p)
	vAssert(len(idx) == N, "length")
	for i := 0; i < N; i++ {
		r := 0
		for b := 0; b < p; b++ {
			if (i>>uint(b))&1 == 1 {
				r |= 1 << uint(p-1-b)
			}
		}
		vAssert(idx[i] == r, "bit reversal")
	}
	vReach("end")
}

func vComplexVec(N int) []complex128 {
	x := make([]complex128, N)
	for i := 0; i < N; i++ {
		re := vReal()
		im := vReal()
		vAssume(re >= -1 && re <= 1 && im >= -1 && im <= 1)
		x[i] = complex(re, im)
	}
	return x
}

// forward transform against the direct O(N^2) definition X[k] = sum_j x[j] w^(jk), w = the table's primitive root;
// inputs are arbitrary complex numbers of the unit box (the transform is linear, so this covers every input up to scale)
func H_C19_transform(N int) {
	x := vComplexVec(N)
	f, err := New(N)
	vAssert(err == nil && f.N == N, "transformer for a power of two has that length")
	y := make([]complex128, N)
	copy(y, x)
	out := f.Transform(y)
	for k := 0; k < N; k++ {
		var s complex128
		for j := 0; j < N; j++ {
			s += x[j] * f.E[(j*k)%N]
		}
		vClose(real(out[k]), real(s), 1e-10, "Re X[k] = Re sum_j x[j] w^(jk)")
		vClose(imag(out[k]), imag(s), 1e-10, "Im X[k] = Im sum_j x[j] w^(jk)")
	}
	vReach("end")
}

// the inverse transform restores the input
func H_C19_inverse(N int) {
	x := vComplexVec(N)
	f, _ := New(N)
	y := make([]complex128, N)
	copy(y, x)
	f.Transform(y)
	z := f.Inverse(y)
	for k := 0; k < N; k++ {
		vClose(real(z[k]), real(x[k]), 1e-10, "Re inverse(transform(x)) = x")
		vClose(imag(z[k]), imag(x[k]), 1e-10, "Im inverse(transform(x)) = x")
	}
	vReach("end")
}

// constructing for a non power of two yields the largest power of two below
func H_C19_new(N int) {
	f, err := New(N)
	want := 2
	for 2*want <= N {
		want *= 2
	}
	vAssert(err == nil && f.N == want && len(f.E) == want && len(f.perm) == want, "New(N) is a transformer for the largest power of two <= N")
	vReach("end")
}

// transforming a slice of the wrong length is refused (documented panic), not computed
func H_C19_wronglen(N, L, inverse int) {
	f, _ := New(N)
	refused := false
	func() {
		defer func() {
			if r := recover(); r != nil {
				refused = true
			}
		}()
		if inverse == 1 {
			f.Inverse(make([]complex128, L))
		} else {
			f.Transform(make([]complex128, L))
		}
	}()
	vAssert(refused, "wrong length is refused rather than computed")
}
