package fft

import (
	"os"
	"testing"
)

var vHarnesses = map[string]func(p []int){
	"H_C19_lastpow2":  func(p []int) { H_C19_lastpow2() },
	"H_C19_perm":      func(p []int) { H_C19_perm(p[0]) },
	"H_C19_transform": func(p []int) { H_C19_transform(p[0]) },
	"H_C19_inverse":   func(p []int) { H_C19_inverse(p[0]) },
	"H_C19_new":       func(p []int) { H_C19_new(p[0]) },
	"H_C19_wronglen":  func(p []int) { H_C19_wronglen(p[0], p[1], p[2]) },
}

func TestVerifReplay(t *testing.T) {
	path := os.Getenv("VERIF_REPLAY")
	if path == "" {
		t.Skip("no VERIF_REPLAY")
	}
	vLoad(path)
	h, ok := vHarnesses[vRec.Harness]
	if !ok {
		t.Fatalf("unknown harness %s", vRec.Harness)
	}
	run := func() {
		defer func() {
			if r := recover(); r != nil {
				if _, ok := r.(vAssumeFailed); ok {
					t.Logf("VERIF-ASSUME-FAILED")
					return
				}
				t.Errorf("VERIF-PANIC: %v", r)
			}
		}()
		h(vRec.Params)
	}
	if vRec.Search > 0 {
		for it := 1; it <= vRec.Search && len(vFailures) == 0 && !t.Failed(); it++ {
			vSearchSeed = uint64(it)*0x9E3779B97F4A7C15 + 1
			vPos = 0
			vMarginal = nil
			run()
			if len(vFailures) > 0 {
				t.Logf("VERIF-SEARCH-HIT: pseudo-random input number %d", it)
			}
		}
	} else {
		run()
	}
	for _, f := range vFailures {
		t.Errorf("VERIF-FAIL: %s", f)
	}
	for _, m := range vMarginal {
		t.Logf("VERIF-MARGINAL: %s", m)
	}
	for _, r := range vReached {
		t.Logf("VERIF-REACHED: %s", r)
	}
}
