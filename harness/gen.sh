#!/bin/sh
# regenerate the per-package copies of the harness API
cd "$(dirname "$0")"
for d in root:randomness detect:detect fft:fft rddetector:main rdgen:main; do
  dir=${d%%:*}; pkg=${d##*:}
  sed "s/PKGNAME/$pkg/" api.go.tmpl > $dir/zz_verif_api.go
done
