package detect

// Replacement of detect/round.go used ONLY by native replays of workflow harnesses (go test -overlay):
// when a harness has declared scripted results the round functions serve them, otherwise they behave
// exactly like the original file.

import "github.com/Trisia/randomness"

func Round15(data []byte) []*randomness.TestResult {
	if vScript != nil {
		return vScriptedRound("Round15", data, 15)
	}
	results := make([]*randomness.TestResult, 15)
	for i, method := range randomness.TestMethodArr {
		results[i] = method.Runner(data)
	}
	return results
}

func Round12(data []byte) []*randomness.TestResult {
	if vScript != nil {
		return vScriptedRound("Round12", data, 12)
	}
	results := make([]*randomness.TestResult, 12)
	arr := randomness.TestMethodArr[:12]
	for i, method := range arr {
		results[i] = method.Runner(data)
	}
	return results
}
