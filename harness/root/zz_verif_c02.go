package randomness

import "math"

// ---- C02: run based tests against definitional reference models

// number of maximal runs: a run starts at position 0 and wherever the symbol changes
func specRunCount(x []bool) int {
	r := 0
	for i := 0; i < len(x); i++ {
		if i == 0 || x[i] != x[i-1] {
			r++
		}
	}
	return r
}

// GM/T 0005 5.5: pi = ones/n, V = (Vobs - 2 n pi (1-pi)) / (2 sqrt(n) pi (1-pi)), P = erfc(|V|/sqrt2), Q = erfc(V/sqrt2)/2
func specRuns(x []bool) (float64, float64) {
	n := len(x)
	vobs := specRunCount(x)
	pi := float64(specOnes(x)) / float64(n)
	// V/sqrt(2) with sqrt(n)*sqrt(2) written as sqrt(2n): same real number, and the form the solver can compare cheaply
	v := (float64(vobs) - 2*float64(n)*pi*(1-pi)) / (2 * math.Sqrt(float64(2*n)) * pi * (1 - pi))
	return math.Erfc(math.Abs(v)), math.Erfc(v) / 2
}

func H_C02_runs(n int) {
	x := vBits(n)
	ones := specOnes(x)
	vAssume(ones != 0 && ones != n) // constant sequences (pi(1-pi) = 0): H_C02_runs_const
	p, q := RunsTest(x)
	sp, sq := specRuns(x)
	vClose(p, sp, 1e-8, "P")
	vClose(q, sq, 1e-8, "Q")
	vReach("end")
}

// constant sequences: the statistic divides by pi(1-pi) = 0; IEEE gives +Inf, P = Q = 0
func H_C02_runs_const(n int, bit int) {
	x := make([]bool, n)
	for i := range x {
		x[i] = bit == 1
	}
	p, q := RunsTest(x)
	sp, sq := specRuns(x)
	vClose(p, sp, 1e-8, "P")
	vClose(q, sq, 1e-8, "Q")
	vAssert(p == 0 && q == 0, "constant sequence rejected with P=Q=0")
	vReach("end")
}

// true iff a maximal run of symbol sym ends at position i and has length exactly L (L < k),
// or length >= L when atLeast is set
func specRunEndsAt(x []bool, i, L int, sym bool, atLeast bool) bool {
	n := len(x)
	if i-L+1 < 0 {
		return false
	}
	ok := true
	if i+1 < n && x[i+1] == sym {
		ok = false
	}
	for t := 0; t < L; t++ {
		if x[i-t] != sym {
			ok = false
		}
	}
	if !atLeast && i-L >= 0 && x[i-L] == sym {
		ok = false
	}
	return ok
}

// GM/T 0005 5.6: k = max{i : (n-i+3)/2^(i+2) >= 5}; b_i / g_i = number of 1-runs / 0-runs of length i
// (length >= k pooled into class k); T = total number of runs; e_i = T/2^(i+1) (i<k), e_k = T/2^k;
// V = sum (b_i-e_i)^2/e_i + (g_i-e_i)^2/e_i ; P = igamc(k-1, V/2)
func specRunsDistribution(x []bool) float64 {
	n := len(x)
	k := 0
	for i := 1; i <= n && i < 50; i++ { // 2^(i+2) must not overflow; (n-i+3)/2^(i+2) < 5 for every i >= 50 and n < 2^52
		p := 1
		for t := 0; t < i+2; t++ {
			p = p * 2
		}
		// (n-i+3)/2^(i+2) >= 5  <=>  n-i+3 >= 5*2^(i+2)
		if n-i+3 >= 5*p {
			k = i
		}
	}
	b := make([]int, k+1)
	g := make([]int, k+1)
	for i := 0; i < n; i++ {
		for L := 1; L <= k; L++ {
			if specRunEndsAt(x, i, L, true, L == k) {
				b[L]++
			}
			if specRunEndsAt(x, i, L, false, L == k) {
				g[L]++
			}
		}
	}
	T := 0
	for L := 1; L <= k; L++ {
		T += b[L] + g[L]
	}
	var v float64
	for L := 1; L <= k; L++ {
		den := 1.0
		for t := 0; t < L+1; t++ {
			den = den * 2
		}
		if L == k {
			den = den / 2
		}
		e := float64(T) / den
		v += (float64(b[L])-e)*(float64(b[L])-e)/e + (float64(g[L])-e)*(float64(g[L])-e)/e
	}
	return igamc(float64(k-1), v/2)
}

func H_C02_runsdist(n int) {
	x := vBits(n)
	p, q := RunsDistributionTest(x)
	sp := specRunsDistribution(x)
	vClose(p, sp, 1e-8, "P")
	vClose(q, sp, 1e-8, "Q")
	vReach("end")
}

// regime selection of the longest-run test over the whole int range
func H_C02_selectParameters() {
	n := vInt(-1<<62, 1<<62)
	r := selectParameters(n)
	want := 0
	if n >= 6272 {
		want = 1
	}
	if n >= 750000 {
		want = 2
	}
	vAssert(r == want, "regime")
	vReach("end")
}

// does the block x[lo:hi) contain L consecutive symbols equal to sym
func specHasRun(x []bool, lo, hi, L int, sym bool) bool {
	found := false
	for s := lo; s+L <= hi; s++ {
		all := true
		for t := 0; t < L; t++ {
			if x[s+t] != sym {
				all = false
			}
		}
		if all {
			found = true
		}
	}
	return found
}

// GM/T 0005 5.7: blocks of m bits, longest run of the chosen symbol per block classified into K+1 classes
// {<=startV, startV+1, ..., >=startV+K}; V = sum (v_i - N pi_i)^2/(N pi_i); P = igamc(K/2, V/2)
func specLongestRun(x []bool, checkOne bool, m, K, startV int, pi []float64) float64 {
	n := len(x)
	N := n / m
	v := make([]int, K+1)
	for blk := 0; blk < N; blk++ {
		c := 0
		for j := 1; j <= K; j++ {
			if specHasRun(x, blk*m, blk*m+m, startV+j, checkOne) {
				c++
			}
		}
		v[c]++
	}
	var chi float64
	for i := 0; i <= K; i++ {
		e := float64(N) * pi[i]
		chi += (float64(v[i]) - e) * (float64(v[i]) - e) / e
	}
	return igamc(float64(K)/2, chi/2)
}

func H_C02_longestrun(n int, one int) {
	x := vBits(n)
	checkOne := one == 1
	p, q := LongestRunOfOnesInABlockProto(x, checkOne)
	var sp float64
	if n < 6272 {
		sp = specLongestRun(x, checkOne, 8, 3, 1, []float64{0.2148, 0.3672, 0.2305, 0.1875})
	} else if n < 750000 {
		sp = specLongestRun(x, checkOne, 128, 5, 4, []float64{0.1174, 0.2430, 0.2494, 0.1752, 0.1027, 0.1124})
	} else {
		sp = specLongestRun(x, checkOne, 10000, 6, 10, []float64{0.086632, 0.208201, 0.248419, 0.193913, 0.121458, 0.068011, 0.073366})
	}
	vClose(p, sp, 1e-8, "P")
	vClose(q, sp, 1e-8, "Q")
	vReach("end")
}
