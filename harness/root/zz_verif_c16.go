package randomness

import "math"

// ---- C16: well-formed probabilities, P/Q consistency

func c16WellFormed(p, q float64) {
	vAssert(!math.IsNaN(p) && !math.IsNaN(q), "never NaN")
	vAssert(p >= -1e-9 && p <= 1+1e-9, "P in [0,1]")
	vAssert(q >= -1e-9 && q <= 1+1e-9, "Q in [0,1]")
}

// two-sided tests: P = 2 min(Q, 1-Q)
func H_C16_twosided(test, par, n int) {
	x := vBits(n)
	p, q, _, _ := c17Run(test, x, par)
	c16WellFormed(p, q)
	vAssert(math.Abs(p-2*math.Min(q, 1-q)) <= 1e-9, "P = 2 min(Q, 1-Q)")
	vReach("end")
}

// chi-square tests: Q = P
func H_C16_chisquare(test, par, n int) {
	x := vBits(n)
	p, q, r, s := c17Run(test, x, par)
	c16WellFormed(p, q)
	if test == 3 {
		// overlapping: the four values are P1, P2, Q1, Q2
		c16WellFormed(r, s)
		vAssert(r == p && s == q, "overlapping: Q1 = P1, Q2 = P2")
	} else {
		vAssert(q == p, "Q = P")
	}
	vReach("end")
}

// the exported incomplete gamma function returns exactly 1 for x <= 0 or a <= 0 (branch only; its accuracy is C06)
func H_C16_igamc_edge() {
	a := vReal()
	x := vReal()
	vAssume(x <= 0 || a <= 0)
	vAssert(vIgamcReal(a, x) == 1, "Q(a,x) = 1 for x <= 0")
	vReach("end")
}

func vIgamcReal(a, x float64) float64 { return igamc(a, x) }
