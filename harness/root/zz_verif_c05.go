package randomness

import (
	"math"
	"math/cmplx"

	"github.com/Trisia/randomness/fft"
)

// ---- C05: discrete Fourier transform test (the transform itself is C19; here it is summarised symbolically:
// equal input vectors give equal output vectors)

// GM/T 0005 5.15: X = +-1 sequence zero-extended to the next power of two; N1 = #{i < n/2-1 : |F_i| < sqrt(2.995732274 n)},
// N0 = 0.95 n/2, V = (N1-N0)/sqrt(0.95*0.05*n/3.8), P = erfc(|V|/sqrt2), Q = erfc(V/sqrt2)/2
func specDFT(x []bool) (float64, float64) {
	n := len(x)
	N := 2
	for N < n {
		N *= 2
	}
	v := make([]complex128, N)
	for i := 0; i < n; i++ {
		if x[i] {
			v[i] = complex(1, 0)
		} else {
			v[i] = complex(-1, 0)
		}
	}
	f, err := fft.New(N)
	if err != nil {
		panic(err)
	}
	f.Transform(v)
	T := math.Sqrt(2.995732274 * float64(n))
	n1 := 0
	for i := 0; i < n/2-1; i++ {
		if cmplx.Abs(v[i]) < T {
			n1++
		}
	}
	n0 := 0.95 * float64(n) / 2
	// V/sqrt2 with sqrt(.)*sqrt2 written as sqrt(2 .)
	w := (float64(n1) - n0) / math.Sqrt(0.95*0.05*float64(2*n)/3.8)
	return math.Erfc(math.Abs(w)), math.Erfc(w) / 2
}

func H_C05_dft(n int) {
	x := vBits(n)
	p, q := DiscreteFourierTransformTest(x)
	sp, sq := specDFT(x)
	vClose(p, sp, 1e-8, "P")
	vClose(q, sq, 1e-8, "Q")
	vReach("end")
}

// padding length: the least power of two >= n (and >= 2), for every n up to 2^62
func H_C05_ceilpow2() {
	n := vInt(1, 1<<62)
	N := ceilPow2(n)
	vAssert(N >= n && N >= 2, "not smaller than n")
	vAssert(N&(N-1) == 0, "power of two")
	vAssert(N == 2 || N/2 < n, "the least such power")
	vReach("end")
}
