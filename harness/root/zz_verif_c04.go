package randomness

import "math"

// ---- C04: rank, linear complexity, Maurer

// does some LFSR of length l (connection polynomial c_1..c_l) generate a[0..M) ?
func specLFSRGenerates(a []bool, l int) bool {
	M := len(a)
	found := false
	for c := 0; c < 1<<uint(l); c++ {
		ok := true
		for i := l; i < M; i++ {
			s := false
			for j := 1; j <= l; j++ {
				if (c>>uint(j-1))&1 == 1 {
					s = s != a[i-j]
				}
			}
			if s != a[i] {
				ok = false
			}
		}
		if ok {
			found = true
		}
	}
	return found
}

// linear complexity = least l such that an LFSR of length l generates the block (definition)
func specLinearComplexity(a []bool) int {
	M := len(a)
	L := M
	for l := M - 1; l >= 0; l-- {
		if specLFSRGenerates(a, l) {
			L = l
		}
	}
	return L
}

// crash freedom + definition of the Berlekamp-Massey kernel on one block of M bits
func H_C04_lc_block(M int) {
	a := vBits(M)
	L := linearComplexity(a, M)
	vAssert(L == specLinearComplexity(a), "L is the shortest LFSR length")
	vReach("end")
}

// crash freedom only (larger blocks)
func H_C04_lc_crash(M int) {
	a := vBits(M)
	L := linearComplexity(a, M)
	vAssert(L >= 0 && L <= M, "0 <= L <= M")
	vReach("end")
}

// GM/T 0005 5.13: N = n/m blocks, T = (-1)^m (L - mu) + 2/9 with mu the mean linear complexity of an m-bit
// block; since L is an integer and |(-1)^m (m/2 - mu) + 2/9 - round| < 1/2 the class of T is the class of the
// integer d = (-1)^m (L - floor(m/2)) + [m odd]:  T<=-2.5 | <=-1.5 | <=-0.5 | <=0.5 | <=1.5 | <=2.5 | >2.5
func specLCProto(x []bool, m int) float64 {
	n := len(x)
	N := n / m
	v := make([]int, 7)
	for b := 0; b < N; b++ {
		L := specLinearComplexity(x[b*m : b*m+m])
		var d int
		if m%2 == 0 {
			d = L - m/2
		} else {
			d = -(L - m/2) + 1
		}
		c := 3
		if d <= -3 {
			c = 0
		} else if d == -2 {
			c = 1
		} else if d == -1 {
			c = 2
		} else if d == 0 {
			c = 3
		} else if d == 1 {
			c = 4
		} else if d == 2 {
			c = 5
		} else {
			c = 6
		}
		v[c]++
	}
	pi := []float64{0.010417, 0.03125, 0.12500, 0.5000, 0.25000, 0.06250, 0.020833}
	var chi float64
	for i := 0; i < 7; i++ {
		e := float64(N) * pi[i]
		chi += (float64(v[i]) - e) * (float64(v[i]) - e) / e
	}
	return igamc(3.0, chi/2)
}

func H_C04_lc_proto(n, m int) {
	x := vBits(n)
	p, q := LinearComplexityProto(x, m)
	sp := specLCProto(x, m)
	vClose(p, sp, 1e-8, "P")
	vClose(q, sp, 1e-8, "Q")
	vReach("end")
}

// number of vectors c in GF(2)^m with c*A = 0 is 2^(m - rank A)
func specNullCount(x []bool, off, m int) int {
	cnt := 0
	for c := 0; c < 1<<uint(m); c++ {
		zero := true
		for j := 0; j < m; j++ {
			s := false
			for i := 0; i < m; i++ {
				if (c>>uint(i))&1 == 1 {
					s = s != x[off+i*m+j]
				}
			}
			if s {
				zero = false
			}
		}
		if zero {
			cnt++
		}
	}
	return cnt
}

// GM/T 0005 5.10 with m x m matrices: F_m (full rank), F_{m-1}, rest; P = igamc(1, V/2)
func specMatrixRank(x []bool, m int) float64 {
	n := len(x)
	N := n / (m * m)
	fm, fm1 := 0, 0
	for b := 0; b < N; b++ {
		c := specNullCount(x, b*m*m, m)
		if c == 1 {
			fm++
		} else if c == 2 {
			fm1++
		}
	}
	fr := N - fm - fm1
	_N := float64(N)
	v := math.Pow(float64(fm)-0.2888*_N, 2.0)/(0.2888*_N) +
		math.Pow(float64(fm1)-0.5776*_N, 2.0)/(0.5776*_N) +
		math.Pow(float64(fr)-0.1336*_N, 2.0)/(0.1336*_N)
	return igamc(1, v/2)
}

func H_C04_rank(n, m int) {
	x := vBits(n)
	p, q := MatrixRankProto(x, m, m)
	sp := specMatrixRank(x, m)
	vClose(p, sp, 1e-8, "P")
	vClose(q, sp, 1e-8, "Q")
	vReach("end")
}

// value of the i-th (1-based) 7-bit block
func specBlock7(x []bool, i int) int {
	v := 0
	for t := 0; t < 7; t++ {
		v = v * 2
		if x[(i-1)*7+t] {
			v = v + 1
		}
	}
	return v
}

// GM/T 0005 5.14 (L=7, Q=1280): for each test block i its distance to the previous occurrence of the same 7-bit
// pattern (i itself if the pattern did not occur before); statistic = mean log2 distance; V, P, Q as in the standard
func specMaurer(x []bool) (float64, float64) {
	n := len(x)
	L, Q := 7, 1280
	K := n/L - Q
	sum := 0.0
	for i := Q + 1; i <= Q+K; i++ {
		bi := specBlock7(x, i)
		last := 0
		for j := 1; j < i; j++ {
			if specBlock7(x, j) == bi {
				last = j
			}
		}
		sum += math.Log(float64(i-last)) / math.Log(2.0)
	}
	c := 0.7 - 0.8/float64(L) + (4.0+32.0/float64(L))*(math.Pow(float64(K), -3.0/float64(L))/15.0)
	sigma := math.Sqrt(3.125/float64(K)) * c
	v := (sum/float64(K) - 6.1962507) / (sigma * math.Sqrt(2.0))
	return math.Erfc(math.Abs(v)), math.Erfc(v) / 2
}

// one obligation per value of the last test block (case split on the looked-up key, DESIGN 2.3a)
func H_C04_maurer(n, vlo, vhi int) {
	x := vBits(n)
	K := n/7 - 1280
	p, q := MaurerUniversalTest(x)
	sp, sq := specMaurer(x)
	last := specBlock7(x, 1280+K)
	for v := vlo; v <= vhi; v++ {
		if last == v {
			vClose(p, sp, 1e-8, "P")
			vClose(q, sq, 1e-8, "Q")
		}
	}
	vReach("end")
}
