package randomness

// ---- C18: purity - input untouched, deterministic, no writes to shared state (=> safe to call concurrently)

// natively: run f in another goroutine (the race detector watches the replay); symbolically: nothing (the executor
// reports every store to memory that existed before vWatch)
func vGo(f func()) chan struct{} {
	ch := make(chan struct{})
	go func() {
		f()
		close(ch)
	}()
	return ch
}

func vWait(ch chan struct{}) {
	if ch != nil {
		<-ch
	}
}

// from here on every store to an object allocated earlier (the caller's slices, package-level variables) is reported
func vWatch() {}

func H_C18_pure(test, par, n int) {
	x := vBits(n)
	x0 := make([]bool, n)
	copy(x0, x)
	vWatch()
	p1, q1, r1, s1 := c17Run(test, x, par)
	for i := 0; i < n; i++ {
		vAssert(x[i] == x0[i], "the caller's bit slice is left unmodified")
	}
	done := vGo(func() { c17Run(test, x, par) })
	p2, q2, r2, s2 := c17Run(test, x, par)
	vWait(done)
	vClose(p1, p2, 0, "bit-identical when called again on the same data (P)")
	vClose(q1, q2, 0, "bit-identical when called again (Q)")
	vClose(r1, r2, 0, "bit-identical when called again (third value)")
	vClose(s1, s2, 0, "bit-identical when called again (fourth value)")
	vReach("end")
}

func H_C18_pure_bytes(which, nb int) {
	d := vBytes(nb)
	d0 := make([]byte, nb)
	copy(d0, d)
	vWatch()
	run := func() (float64, float64) {
		switch which {
		case 0:
			return MonoBitFrequencyTestBytes(d)
		case 1:
			return PokerTestBytes(d, 4)
		case 2:
			return PokerTestBytes(d, 8)
		default:
			r := Poker(d)
			return r.P, r.Q
		}
	}
	p1, q1 := run()
	for i := 0; i < nb; i++ {
		vAssert(d[i] == d0[i], "the caller's byte slice is left unmodified")
	}
	done := vGo(func() { run() })
	p2, q2 := run()
	vWait(done)
	vClose(p1, p2, 0, "bit-identical when called again (P)")
	vClose(q1, q2, 0, "bit-identical when called again (Q)")
	vReach("end")
}

// the caller hands in a window of a longer slice (spare capacity behind it): the bits after the window must survive
func H_C18_window(test, par, n, extra int) {
	big := vBits(n + extra)
	big0 := make([]bool, n+extra)
	copy(big0, big)
	x := big[:n]
	vWatch()
	c17Run(test, x, par)
	for i := 0; i < n+extra; i++ {
		vAssert(big[i] == big0[i], "memory of the caller (also beyond the window passed in) is left unmodified")
	}
	vReach("end")
}

// results do not depend on what was tested before: T(y), p1 = T(x), T(z), p2 = T(x) with three different lengths
func H_C18_history(test, par, n1, n2, n3 int) {
	x := vBits(n1)
	y := vBits(n2)
	z := vBits(n3)
	vWatch()
	c17Run(test, y, par)
	p1, q1, r1, s1 := c17Run(test, x, par)
	c17Run(test, z, par)
	p2, q2, r2, s2 := c17Run(test, x, par)
	vClose(p1, p2, 0, "same result whatever was tested before (P)")
	vClose(q1, q2, 0, "same result whatever was tested before (Q)")
	vClose(r1, r2, 0, "same result whatever was tested before (third value)")
	vClose(s1, s2, 0, "same result whatever was tested before (fourth value)")
	vReach("end")
}
