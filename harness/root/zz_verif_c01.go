package randomness

import "math"

// ---- C01: frequency / pattern-count tests against definitional reference models

func specOnes(x []bool) int {
	ones := 0
	for i := 0; i < len(x); i++ {
		if x[i] {
			ones++
		}
	}
	return ones
}

// GM/T 0005 5.1: V = (2*ones - n)/sqrt(n), P = erfc(|V|/sqrt 2), Q = erfc(V/sqrt 2)/2
func specMonobit(x []bool) (float64, float64) {
	n := len(x)
	s := 2*specOnes(x) - n
	v := float64(s) / math.Sqrt(float64(n)) / math.Sqrt(2)
	return math.Erfc(math.Abs(v)), math.Erfc(v) / 2
}

func H_C01_monobit(n int) {
	x := vBits(n)
	p, q := MonoBitFrequencyTest(x)
	sp, sq := specMonobit(x)
	vClose(p, sp, 1e-8, "P")
	vClose(q, sq, 1e-8, "Q")
	vReach("end")
}

// expansion of bytes into bits, most significant bit first (definition used by the standard)
func specBitsOfBytes(d []byte) []bool {
	r := make([]bool, 0, 8*len(d))
	for i := 0; i < len(d); i++ {
		for j := 7; j >= 0; j-- {
			r = append(r, (d[i]>>uint(j))&1 == 1)
		}
	}
	return r
}

func H_C01_monobit_bytes(nb int) {
	d := vBytes(nb)
	p, q := MonoBitFrequencyTestBytes(d)
	sp, sq := specMonobit(specBitsOfBytes(d))
	vClose(p, sp, 1e-8, "P")
	vClose(q, sq, 1e-8, "Q")
	vReach("end")
}

// block length selection over the whole int range
func H_C01_selectM() {
	n := vInt(-1<<62, 1<<62)
	m := selectM(n)
	want := 10
	if n >= 1000 {
		want = 100
	}
	if n >= 10000 {
		want = 1000
	}
	if n >= 1000000 {
		want = 10000
	}
	if n >= 100000000 {
		want = 1000000
	}
	vAssert(m == want, "selectM")
	vReach("end")
}

// GM/T 0005 5.2: N = floor(n/m) blocks, pi_i = ones_i/m, V = 4m sum (pi_i-1/2)^2, P = igamc(N/2, V/2)
func specBlockFrequency(x []bool, m int) float64 {
	n := len(x)
	N := n / m
	var v float64
	for i := 0; i < N; i++ {
		ones := 0
		for j := 0; j < m; j++ {
			if x[i*m+j] {
				ones++
			}
		}
		pi := float64(ones) / float64(m)
		v += (pi - 0.5) * (pi - 0.5)
	}
	v = 4 * float64(m) * v
	return igamc(float64(N)/2, v/2)
}

func H_C01_blockfreq(n, m int) {
	x := vBits(n)
	p, q := FrequencyWithinBlockProto(x, m)
	sp := specBlockFrequency(x, m)
	vClose(p, sp, 1e-8, "P")
	vClose(q, sp, 1e-8, "Q")
	vReach("end")
}

// automatic block length: FrequencyWithinBlockTest == Proto with the selected m
func H_C01_blockfreq_auto(n int) {
	x := vBits(n)
	p, q := FrequencyWithinBlockTest(x)
	sp := specBlockFrequency(x, 10)
	vClose(p, sp, 1e-8, "P")
	vClose(q, sp, 1e-8, "Q")
	vReach("end")
}

// value of the m bits starting at position s of the cyclically extended sequence, MSB first
func specWindow(x []bool, s, m int) int {
	v := 0
	for t := 0; t < m; t++ {
		v = v * 2
		if x[(s+t)%len(x)] {
			v = v + 1
		}
	}
	return v
}

// GM/T 0005 5.3: non-overlapping m-bit patterns, V = 2^m/N sum n_i^2 - N, P = igamc((2^m-1)/2, V/2)
func specPoker(x []bool, m int) float64 {
	n := len(x)
	N := n / m
	size := 1
	for i := 0; i < m; i++ {
		size = size * 2
	}
	hist := make([]int, size)
	for i := 0; i < N; i++ {
		hist[specWindow(x, i*m, m)]++
	}
	var s float64
	for i := 0; i < size; i++ {
		s += float64(hist[i]) * float64(hist[i])
	}
	v := float64(size)/float64(N)*s - float64(N)
	return igamc(float64(size-1)/2, v/2)
}

func H_C01_poker(n, m int) {
	x := vBits(n)
	p, q := PokerProto(x, m)
	sp := specPoker(x, m)
	vClose(p, sp, 1e-8, "P")
	vClose(q, sp, 1e-8, "Q")
	vReach("end")
}

func H_C01_poker_bytes(nb, m int) {
	d := vBytes(nb)
	p, q := PokerTestBytes(d, m)
	sp := specPoker(specBitsOfBytes(d), m)
	vClose(p, sp, 1e-8, "P")
	vClose(q, sp, 1e-8, "Q")
	vReach("end")
}

// psi^2_m over the n cyclic windows of length m (0 for m <= 0)
func specPsi2(x []bool, m int) float64 {
	n := len(x)
	if m <= 0 {
		return 0
	}
	size := 1
	for i := 0; i < m; i++ {
		size = size * 2
	}
	hist := make([]int, size)
	for s := 0; s < n; s++ {
		hist[specWindow(x, s, m)]++
	}
	var sum float64
	for i := 0; i < size; i++ {
		sum += float64(hist[i]) * float64(hist[i])
	}
	return float64(size)/float64(n)*sum - float64(n)
}

// GM/T 0005 5.4: P1 = igamc(2^(m-2), (psi_m - psi_{m-1})/2), P2 = igamc(2^(m-3), (psi_m - 2 psi_{m-1} + psi_{m-2})/2)
func specOverlapping(x []bool, m int) (float64, float64) {
	a, b, c := specPsi2(x, m), specPsi2(x, m-1), specPsi2(x, m-2)
	d1 := a - b
	d2 := a - 2*b + c
	dof := 1.0
	for i := 0; i < m-2; i++ {
		dof = dof * 2
	}
	return igamc(dof, d1/2), igamc(dof/2, d2/2)
}

func H_C01_overlapping(n, m int) {
	x := vBits(n)
	p1, p2, q1, q2 := OverlappingTemplateMatchingProto(x, m)
	s1, s2 := specOverlapping(x, m)
	vClose(p1, s1, 1e-8, "P1")
	vClose(p2, s2, 1e-8, "P2")
	vClose(q1, s1, 1e-8, "Q1")
	vClose(q2, s2, 1e-8, "Q2")
	vReach("end")
}

// phi_m = sum_j C_j ln C_j, C_j = count_j / n over the n cyclic windows of length m
func specPhi(x []bool, m int) float64 {
	n := len(x)
	size := 1
	for i := 0; i < m; i++ {
		size = size * 2
	}
	hist := make([]int, size)
	for s := 0; s < n; s++ {
		hist[specWindow(x, s, m)]++
	}
	// sum_j C_j ln C_j = (sum_j count_j ln(count_j/n)) / n
	var phi float64
	for i := 0; i < size; i++ {
		if hist[i] > 0 {
			phi += float64(hist[i]) * math.Log(float64(hist[i])/float64(n))
		}
	}
	return phi / float64(n)
}

// GM/T 0005 5.12: ApEn = phi_m - phi_{m+1}, V = 2n(ln 2 - ApEn), P = igamc(2^(m-1), V/2)
func specApEn(x []bool, m int) float64 {
	n := len(x)
	apen := specPhi(x, m) - specPhi(x, m+1)
	v := 2 * float64(n) * (math.Log(2) - apen)
	dof := 1.0
	for i := 0; i < m-1; i++ {
		dof = dof * 2
	}
	return igamc(dof, v/2)
}

func H_C01_apen(n, m int) {
	x := vBits(n)
	p, q := ApproximateEntropyProto(x, m)
	sp := specApEn(x, m)
	vClose(p, sp, 1e-8, "P")
	vClose(q, sp, 1e-8, "Q")
	vReach("end")
}
