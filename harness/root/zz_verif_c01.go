package randomness

import "math"

// ---- C01: frequency / pattern-count tests against definitional reference models

func specOnes(x []bool) int {
	ones := 0
	for i := 0; i < len(x); i++ {
		if x[i] {
			ones++
		}
	}
	return ones
}

// GM/T 0005 5.1: V = (2*ones - n)/sqrt(n), P = erfc(|V|/sqrt 2), Q = erfc(V/sqrt 2)/2
func specMonobit(x []bool) (float64, float64) {
	n := len(x)
	s := 2*specOnes(x) - n
	v := float64(s) / math.Sqrt(float64(n)) / math.Sqrt(2)
	return math.Erfc(math.Abs(v)), math.Erfc(v) / 2
}

func H_C01_monobit(n int) {
	x := vBits(n)
	p, q := MonoBitFrequencyTest(x)
	sp, sq := specMonobit(x)
	vClose(p, sp, 1e-8, "P")
	vClose(q, sq, 1e-8, "Q")
	vReach("end")
}
