package randomness

import "math"

// ---- C03: binary derivative, autocorrelation, cumulative sums

// parity of the binomial coefficient C(k, j) (Lucas: odd iff j & ^k == 0)
func specBinomOdd(k, j int) bool {
	return j&^k == 0
}

// bit i of the k-th binary derivative: XOR over j of (C(k,j) mod 2) * x[i+j]
func specDerivBit(x []bool, k, i int) bool {
	b := false
	for j := 0; j <= k; j++ {
		if specBinomOdd(k, j) {
			b = b != x[i+j]
		}
	}
	return b
}

// GM/T 0005 5.8: S = #ones - #zeros of the k-th derivative (length n-k), V = S/sqrt(n-k),
// P = erfc(|V|/sqrt2), Q = erfc(V/sqrt2)/2       (sqrt(n-k)*sqrt2 written as sqrt(2(n-k)))
func specBinaryDerivative(x []bool, k int) (float64, float64) {
	n := len(x)
	s := 0
	for i := 0; i < n-k; i++ {
		if specDerivBit(x, k, i) {
			s++
		} else {
			s--
		}
	}
	v := float64(s) / math.Sqrt(float64(2*(n-k)))
	return math.Erfc(math.Abs(v)), math.Erfc(v) / 2
}

func H_C03_binderiv(n, k int) {
	x := vBits(n)
	p, q := BinaryDerivativeProto(x, k)
	sp, sq := specBinaryDerivative(x, k)
	vClose(p, sp, 1e-8, "P")
	vClose(q, sq, 1e-8, "Q")
	vReach("end")
}

// GM/T 0005 5.9: A(d) = #{i < n-d : x_i != x_{i+d}}, V = 2(A - (n-d)/2)/sqrt(n-d), P = erfc(|V|/sqrt2), Q = erfc(V/sqrt2)/2
func specAutocorrelation(x []bool, d int) (float64, float64) {
	n := len(x)
	a := 0
	for i := 0; i+d < n; i++ {
		if x[i] != x[i+d] {
			a++
		}
	}
	v := 2 * (float64(a) - float64(n-d)/2) / math.Sqrt(float64(2*(n-d)))
	return math.Erfc(math.Abs(v)), math.Erfc(v) / 2
}

func H_C03_autocorr(n, d int) {
	x := vBits(n)
	p, q := AutocorrelationProto(x, d)
	sp, sq := specAutocorrelation(x, d)
	vClose(p, sp, 1e-8, "P")
	vClose(q, sq, 1e-8, "Q")
	vReach("end")
}

// maximum absolute partial sum of the +-1 walk, taken from the front
func specMaxExcursion(x []bool) int {
	n := len(x)
	s := 0
	z := 0
	for i := 0; i < n; i++ {
		if x[i] {
			s = s + 1
		} else {
			s = s - 1
		}
		a := s
		if a < 0 {
			a = -a
		}
		if a > z {
			z = a
		}
	}
	return z
}

func specReverse(x []bool) []bool {
	n := len(x)
	r := make([]bool, n)
	for i := 0; i < n; i++ {
		r[i] = x[n-1-i]
	}
	return r
}

func specPhi01(v float64) float64 { return (1 + math.Erf(v/math.Sqrt(2))) / 2 }

// GM/T 0005 5.11 (same series as NIST SP 800-22 2.13, integer limits truncated as there)
func specCusumP(n, z int) float64 {
	sq := math.Sqrt(float64(n))
	p := 1.0
	for k := (-n/z + 1) / 4; k <= (n/z-1)/4; k++ {
		p -= specPhi01(float64((4*k+1)*z)/sq) - specPhi01(float64((4*k-1)*z)/sq)
	}
	for k := (-n/z - 3) / 4; k <= (n/z-1)/4; k++ {
		p += specPhi01(float64((4*k+3)*z)/sq) - specPhi01(float64((4*k+1)*z)/sq)
	}
	return p
}

// one obligation per excursion value z (case split on Z, DESIGN 2.3a)
func H_C03_cusum(n, fwd, z int) {
	x := vBits(n)
	forward := fwd == 1
	var zs int
	if forward {
		zs = specMaxExcursion(x)
	} else {
		zs = specMaxExcursion(specReverse(x))
	}
	vAssume(zs == z)
	p, q := CumulativeTest(x, forward)
	sp := specCusumP(n, zs)
	vClose(p, sp, 1e-8, "P")
	vClose(q, sp, 1e-8, "Q")
	vReach("end")
}

// the case split is exhaustive: Z always lies in 1..n
func H_C03_cusum_cases(n int) {
	x := vBits(n)
	z := specMaxExcursion(x)
	vAssert(z >= 1 && z <= n, "1 <= Z <= n")
	vReach("end")
}

// the two sequences with excursion Z = 1 (strict alternation) at the standard's lengths: the series then has n terms.
// (the case Z = 1 of the split consists of exactly these two inputs; they are evaluated concretely)
func H_C03_cusum_alt(n, first, fwd int) {
	x := make([]bool, n)
	for i := range x {
		x[i] = (i+first)%2 == 1
	}
	p, q := CumulativeTest(x, fwd == 1)
	sp := specCusumP(n, 1)
	vAssert(specMaxExcursion(x) == 1, "alternating sequence has excursion 1")
	vClose(p, sp, 1e-8, "P")
	vClose(q, sp, 1e-8, "Q")
	vReach("end")
}
