package randomness

import (
	"math"
	"os"
)

// ---- C15: entry points agree (bytes vs bits, defaults, registry order)

func H_C15_b2bit() {
	d := vBytes(1)
	b := d[0]
	bits := B2bit(b)
	vAssert(len(bits) == 8, "eight bits")
	for j := 0; j < 8; j++ {
		vAssert(bits[j] == ((b>>uint(7-j))&1 == 1), "bit j of B2bit(b) is bit 7-j of b")
	}
	vAssert(B2Byte(bits) == b, "B2Byte(B2bit(b)) == b")
	vReach("end")
}

func H_C15_b2bitarr(nb int) {
	d := vBytes(nb)
	x := B2bitArr(d)
	y := specBitsOfBytes(d)
	vAssert(len(x) == 8*nb, "length")
	for i := 0; i < 8*nb; i++ {
		vAssert(x[i] == y[i], "most significant bit first")
	}
	vReach("end")
}

// byte-oriented fast paths against the bit-oriented implementation on the MSB-first expansion
func H_C15_bytes_vs_bits(nb int) {
	d := vBytes(nb)
	x := B2bitArr(d)
	p, q := MonoBitFrequencyTestBytes(d)
	p2, q2 := MonoBitFrequencyTest(x)
	vClose(p, p2, 0, "monobit P")
	vClose(q, q2, 0, "monobit Q")
	for _, m := range []int{2, 4, 8} {
		p, q = PokerTestBytes(d, m)
		p2, q2 = PokerProto(x, m)
		vClose(p, p2, 0, "poker P")
		vClose(q, q2, 0, "poker Q")
	}
	vReach("end")
}

// every other byte-oriented entry point is the bit-oriented one applied to B2bitArr(data) with the same parameter
func H_C15_testbytes(nb int) {
	d := vBytes(nb)
	x := B2bitArr(d)
	var p, q, p2, q2 float64
	p, q = FrequencyWithinBlockTestBytes(d, 3)
	p2, q2 = FrequencyWithinBlockProto(x, 3)
	vClose(p, p2, 0, "block frequency P")
	vClose(q, q2, 0, "block frequency Q")
	a1, a2, a3, a4 := OverlappingTemplateMatchingTestBytes(d, 3)
	b1, b2, b3, b4 := OverlappingTemplateMatchingProto(x, 3)
	vClose(a1, b1, 0, "overlapping P1")
	vClose(a2, b2, 0, "overlapping P2")
	vClose(a3, b3, 0, "overlapping Q1")
	vClose(a4, b4, 0, "overlapping Q2")
	p, q = BinaryDerivativeTestBytes(d, 3)
	p2, q2 = BinaryDerivativeProto(x, 3)
	vClose(p, p2, 0, "binary derivative P")
	vClose(q, q2, 0, "binary derivative Q")
	p, q = AutocorrelationTestBytes(d, 2)
	p2, q2 = AutocorrelationProto(x, 2)
	vClose(p, p2, 0, "autocorrelation P")
	vClose(q, q2, 0, "autocorrelation Q")
	p, q = ApproximateEntropyTestBytes(d, 2)
	p2, q2 = ApproximateEntropyProto(x, 2)
	vClose(p, p2, 0, "approximate entropy P")
	vClose(q, q2, 0, "approximate entropy Q")
	p, q = MatrixRankTestBytes(d, 2, 2)
	p2, q2 = MatrixRankProto(x, 2, 2)
	vClose(p, p2, 0, "rank P")
	vClose(q, q2, 0, "rank Q")
	p, q = LinearComplexityTestBytes(d, 4)
	p2, q2 = LinearComplexityProto(x, 4)
	vClose(p, p2, 0, "linear complexity P")
	vClose(q, q2, 0, "linear complexity Q")
	vReach("end")
}

// registry runners use the standard's defaults (heavy callees summarised as functions of their arguments)
func H_C15_defaults(nb int) {
	d := vBytes(nb)
	x := B2bitArr(d)
	n := 8 * nb
	chk := func(r *TestResult, p, q float64, label string) {
		vClose(r.P, p, 0, label+" P")
		vClose(r.Q, q, 0, label+" Q")
		vAssert(r.Pass == (p >= 0.01), label+" Pass == (P >= 0.01)")
	}
	var p, q float64
	p, q = MonoBitFrequencyTestBytes(d)
	chk(MonoBitFrequency(d), p, q, "monobit")
	m := 10
	if n >= 1000 {
		m = 100
	}
	if n >= 10000 {
		m = 1000
	}
	if n >= 1000000 {
		m = 10000
	}
	if n >= 100000000 {
		m = 1000000
	}
	p, q = FrequencyWithinBlockProto(x, m)
	chk(FrequencyWithinBlock(d), p, q, "block frequency (automatic block length)")
	p, q = PokerTestBytes(d, 8)
	chk(Poker(d), p, q, "poker m=8")
	p1, p2, q1, q2 := OverlappingTemplateMatchingProto(x, 5)
	ro := OverlappingTemplateMatching(d)
	vClose(ro.P, p1, 0, "overlapping m=5 P1")
	vClose(ro.P2, p2, 0, "overlapping m=5 P2")
	vClose(ro.Q, q1, 0, "overlapping m=5 Q1")
	vClose(ro.Q2, q2, 0, "overlapping m=5 Q2")
	vAssert(ro.Pass == (math.Min(p1, p2) >= 0.01), "overlapping Pass == (min(P1,P2) >= 0.01)")
	p, q = RunsTest(x)
	chk(Runs(d), p, q, "runs")
	p, q = RunsDistributionTest(x)
	chk(RunsDistribution(d), p, q, "runs distribution")
	p, q = LongestRunOfOnesInABlockProto(x, true)
	chk(LongestRunOfOnesInABlock(d), p, q, "longest run of ones")
	p, q = BinaryDerivativeProto(x, 7)
	chk(BinaryDerivative(d), p, q, "binary derivative k=7")
	p, q = AutocorrelationProto(x, 16)
	chk(Autocorrelation(d), p, q, "autocorrelation d=16")
	p, q = MatrixRankProto(x, 32, 32)
	chk(MatrixRank(d), p, q, "rank 32x32")
	p, q = CumulativeTest(x, true)
	chk(Cumulative(d), p, q, "cumulative forward")
	p, q = ApproximateEntropyProto(x, 5)
	chk(ApproximateEntropy(d), p, q, "approximate entropy m=5")
	p, q = LinearComplexityProto(x, 500)
	chk(LinearComplexity(d), p, q, "linear complexity m=500")
	p, q = MaurerUniversalTest(x)
	chk(MaurerUniversal(d), p, q, "Maurer")
	p, q = DiscreteFourierTransformTest(x)
	chk(DiscreteFourierTransform(d), p, q, "DFT")
	vReach("end")
}

// natively: writes d to a temporary file; symbolically: remembered for the ioutil.ReadFile stub
func vTempFile(d []byte) string {
	f, err := os.CreateTemp("", "verif-readgroup-*.bin")
	if err != nil {
		panic(err)
	}
	defer f.Close()
	if _, err := f.Write(d); err != nil {
		panic(err)
	}
	return f.Name()
}

func H_C15_readgroup(nb int) {
	d := vBytes(nb)
	name := vTempFile(d)
	x := ReadGroup(name)
	y := specBitsOfBytes(d)
	vAssert(len(x) == 8*nb, "length")
	for i := 0; i < len(y) && i < len(x); i++ {
		vAssert(x[i] == y[i], "loading a file yields the MSB-first expansion of its bytes")
	}
	if name != "verif-tmp-file" {
		os.Remove(name)
	}
	vReach("end")
}
