package randomness

// ---- C17: symmetries (relational: two runs of the real code on x and on T(x); no reference model)

func c17Run(test int, x []bool, par int) (float64, float64, float64, float64) {
	var p, q float64
	switch test {
	case 0:
		p, q = MonoBitFrequencyTest(x)
	case 1:
		p, q = FrequencyWithinBlockProto(x, par)
	case 2:
		p, q = PokerProto(x, par)
	case 3:
		return OverlappingTemplateMatchingProto(x, par)
	case 4:
		p, q = RunsTest(x)
	case 5:
		p, q = RunsDistributionTest(x)
	case 6:
		p, q = LongestRunOfOnesInABlockProto(x, par == 1)
	case 7:
		p, q = BinaryDerivativeProto(x, par)
	case 8:
		p, q = AutocorrelationProto(x, par)
	case 9:
		p, q = CumulativeTest(x, par == 1)
	case 10:
		p, q = ApproximateEntropyProto(x, par)
	case 11:
		p, q = MatrixRankProto(x, par, par)
	case 12:
		p, q = LinearComplexityProto(x, par)
	case 13:
		p, q = MaurerUniversalTest(x)
	case 14:
		p, q = DiscreteFourierTransformTest(x)
	}
	return p, q, 0, 0
}

// tr: 0 complement, 1 reversal, 2 rotation by a, 3 swap of the blocks a and a+1 of b bits, 4 flip of bit a (a discarded-tail position)
func c17Transform(tr int, x []bool, a, b int) []bool {
	n := len(x)
	y := make([]bool, n)
	for i := 0; i < n; i++ {
		switch tr {
		case 0:
			y[i] = !x[i]
		case 1:
			y[i] = x[n-1-i]
		case 2:
			y[i] = x[(i+a)%n]
		default:
			y[i] = x[i]
		}
	}
	if tr == 3 {
		for i := 0; i < b; i++ {
			y[a*b+i], y[(a+1)*b+i] = x[(a+1)*b+i], x[a*b+i]
		}
	}
	if tr == 4 {
		y[a] = !x[a]
	}
	return y
}

// results on T(x) with parameter par2 equal the results on x with parameter par; qflip: Q becomes 1-Q (monobit under complement);
// z > 0: case split on the maximum excursion of the walk (cumulative sums)
func H_C17(test, par, par2, tr, a, b, n, qflip, z int) {
	x := vBits(n)
	y := c17Transform(tr, x, a, b)
	if z > 0 {
		if par == 1 {
			vAssume(specMaxExcursion(x) == z)
		} else {
			vAssume(specMaxExcursion(specReverse(x)) == z)
		}
	}
	if test == 4 {
		ones := specOnes(x)
		vAssume(ones != 0 && ones != n)
	}
	p1, q1, r1, s1 := c17Run(test, x, par)
	p2, q2, r2, s2 := c17Run(test, y, par2)
	vClose(p1, p2, 1e-9, "P unchanged")
	if qflip == 1 {
		vClose(q1, 1-q2, 1e-9, "Q becomes 1-Q")
	} else {
		vClose(q1, q2, 1e-9, "Q unchanged")
	}
	vClose(r1, r2, 1e-9, "third value unchanged")
	vClose(s1, s2, 1e-9, "fourth value unchanged")
	vReach("end")
}
