package randomness

import (
	"os"
	"testing"
)

var vHarnesses = map[string]func(p []int){
	"H_C03_cusum_alt":  func(p []int) { H_C03_cusum_alt(p[0], p[1], p[2]) },
	"H_C18_history":    func(p []int) { H_C18_history(p[0], p[1], p[2], p[3], p[4]) },
	"H_C18_window":     func(p []int) { H_C18_window(p[0], p[1], p[2], p[3]) },
	"H_C04_maurer":   func(p []int) { H_C04_maurer(p[0], p[1], p[2]) },
	"H_C16_twosided":  func(p []int) { H_C16_twosided(p[0], p[1], p[2]) },
	"H_C16_chisquare": func(p []int) { H_C16_chisquare(p[0], p[1], p[2]) },
	"H_C05_dft":      func(p []int) { H_C05_dft(p[0]) },
	"H_C05_ceilpow2": func(p []int) { H_C05_ceilpow2() },
	"H_C18_pure":       func(p []int) { H_C18_pure(p[0], p[1], p[2]) },
	"H_C18_pure_bytes": func(p []int) { H_C18_pure_bytes(p[0], p[1]) },
	"H_C17": func(p []int) { H_C17(p[0], p[1], p[2], p[3], p[4], p[5], p[6], p[7], p[8]) },
	"H_C15_b2bit":          func(p []int) { H_C15_b2bit() },
	"H_C15_b2bitarr":       func(p []int) { H_C15_b2bitarr(p[0]) },
	"H_C15_bytes_vs_bits":  func(p []int) { H_C15_bytes_vs_bits(p[0]) },
	"H_C15_testbytes":      func(p []int) { H_C15_testbytes(p[0]) },
	"H_C15_defaults":       func(p []int) { H_C15_defaults(p[0]) },
	"H_C15_readgroup":      func(p []int) { H_C15_readgroup(p[0]) },
	"H_C04_lc_block": func(p []int) { H_C04_lc_block(p[0]) },
	"H_C04_lc_crash": func(p []int) { H_C04_lc_crash(p[0]) },
	"H_C04_lc_proto": func(p []int) { H_C04_lc_proto(p[0], p[1]) },
	"H_C04_rank":     func(p []int) { H_C04_rank(p[0], p[1]) },
	"H_C03_binderiv":    func(p []int) { H_C03_binderiv(p[0], p[1]) },
	"H_C03_autocorr":    func(p []int) { H_C03_autocorr(p[0], p[1]) },
	"H_C03_cusum":       func(p []int) { H_C03_cusum(p[0], p[1], p[2]) },
	"H_C03_cusum_cases": func(p []int) { H_C03_cusum_cases(p[0]) },
	"H_C02_runs":             func(p []int) { H_C02_runs(p[0]) },
	"H_C02_runs_const":       func(p []int) { H_C02_runs_const(p[0], p[1]) },
	"H_C02_runsdist":         func(p []int) { H_C02_runsdist(p[0]) },
	"H_C02_selectParameters": func(p []int) { H_C02_selectParameters() },
	"H_C02_longestrun":       func(p []int) { H_C02_longestrun(p[0], p[1]) },
	"H_C01_monobit":        func(p []int) { H_C01_monobit(p[0]) },
	"H_C01_monobit_bytes":  func(p []int) { H_C01_monobit_bytes(p[0]) },
	"H_C01_selectM":        func(p []int) { H_C01_selectM() },
	"H_C01_blockfreq":      func(p []int) { H_C01_blockfreq(p[0], p[1]) },
	"H_C01_blockfreq_auto": func(p []int) { H_C01_blockfreq_auto(p[0]) },
	"H_C01_poker":          func(p []int) { H_C01_poker(p[0], p[1]) },
	"H_C01_poker_bytes":    func(p []int) { H_C01_poker_bytes(p[0], p[1]) },
	"H_C01_overlapping":    func(p []int) { H_C01_overlapping(p[0], p[1]) },
	"H_C01_apen":           func(p []int) { H_C01_apen(p[0], p[1]) },
}

func TestVerifReplay(t *testing.T) {
	path := os.Getenv("VERIF_REPLAY")
	if path == "" {
		t.Skip("no VERIF_REPLAY")
	}
	vLoad(path)
	h, ok := vHarnesses[vRec.Harness]
	if !ok {
		t.Fatalf("unknown harness %s", vRec.Harness)
	}
	run := func() {
		defer func() {
			if r := recover(); r != nil {
				if _, ok := r.(vAssumeFailed); ok {
					t.Logf("VERIF-ASSUME-FAILED")
					return
				}
				t.Errorf("VERIF-PANIC: %v", r)
			}
		}()
		h(vRec.Params)
	}
	if vRec.Search > 0 {
		for it := 1; it <= vRec.Search && len(vFailures) == 0 && !t.Failed(); it++ {
			vSearchSeed = uint64(it)*0x9E3779B97F4A7C15 + 1
			vPos = 0
			vMarginal = nil
			run()
			if len(vFailures) > 0 {
				t.Logf("VERIF-SEARCH-HIT: pseudo-random input number %d", it)
			}
		}
	} else {
		run()
	}
	for _, f := range vFailures {
		t.Errorf("VERIF-FAIL: %s", f)
	}
	for _, m := range vMarginal {
		t.Logf("VERIF-MARGINAL: %s", m)
	}
	for _, r := range vReached {
		t.Logf("VERIF-REACHED: %s", r)
	}
}
