package randomness

import (
	"os"
	"testing"
)

var vHarnesses = map[string]func(p []int){
	"H_C01_monobit": func(p []int) { H_C01_monobit(p[0]) },
}

func TestVerifReplay(t *testing.T) {
	path := os.Getenv("VERIF_REPLAY")
	if path == "" {
		t.Skip("no VERIF_REPLAY")
	}
	vLoad(path)
	h, ok := vHarnesses[vRec.Harness]
	if !ok {
		t.Fatalf("unknown harness %s", vRec.Harness)
	}
	func() {
		defer func() {
			if r := recover(); r != nil {
				if _, ok := r.(vAssumeFailed); ok {
					t.Logf("VERIF-ASSUME-FAILED")
					return
				}
				t.Errorf("VERIF-PANIC: %v", r)
			}
		}()
		h(vRec.Params)
	}()
	for _, f := range vFailures {
		t.Errorf("VERIF-FAIL: %s", f)
	}
	for _, r := range vReached {
		t.Logf("VERIF-REACHED: %s", r)
	}
}
